import PC.Proofs.PlanCycle
/-! The dependency order (`withProcs`, the model of `Project.withProcesses`): on a project whose
    dependencies resolve and whose entry graph is acyclic, every entry reachable from the start
    list is emitted exactly once, after all the entries its dependencies resolve to. -/
namespace PC.Plan

/-- entries the dependencies of `e` resolve to -/
def succE (p : Project) (e : Entry) : List Entry := (resolve p e.deps).getD []

theorem procsOf_mem {p : Project} {n : String} {l : List Entry} (h : procsOf p n = some l) : ∀ e ∈ l, e ∈ p := by
  unfold procsOf at h
  split at h
  · rename_i e he
    simp only [Option.some.injEq] at h
    subst h
    intro x hx
    simp only [List.mem_singleton] at hx
    subst hx
    exact List.mem_of_find?_eq_some he
  · by_cases hl : (p.filter (·.name = n)).isEmpty
    · simp [hl] at h
    · simp only [hl, Bool.false_eq_true, ↓reduceIte, Option.some.injEq] at h
      subst h
      intro x hx
      exact (List.mem_filter.mp hx).1

theorem resolve_mem {p : Project} : ∀ {ns : List String} {l : List Entry}, resolve p ns = some l → ∀ e ∈ l, e ∈ p := by
  intro ns
  induction ns with
  | nil => intro l h; simp [resolve] at h; subst h; simp
  | cons n ns ih =>
    intro l h
    simp only [resolve, Option.bind_eq_bind, Option.pure_def] at h
    cases ha : procsOf p n with
    | none => simp [ha] at h
    | some a =>
      cases hb : resolve p ns with
      | none => simp [ha, hb] at h
      | some b =>
        simp [ha, hb] at h
        subst h
        intro e he
        rcases List.mem_append.mp he with h1 | h1
        · exact procsOf_mem ha e h1
        · exact ih hb e h1

theorem succE_mem {p : Project} {e d : Entry} (h : d ∈ succE p e) : d ∈ p := by
  unfold succE at h
  cases hr : resolve p e.deps with
  | none => simp [hr] at h
  | some l => simp [hr] at h; exact resolve_mem hr d h

def Grey (st : WSt) (k : String) : Prop := k ∈ st.done ∧ k ∉ st.out.map (·.key)

structure WGood (p : Project) (st : WSt) : Prop where
  outIn : ∀ e ∈ st.out, e ∈ p ∧ e.key ∈ st.done
  nodup : (st.out.map (·.key)).Nodup
  before : ∀ (j : Nat) (e : Entry), st.out[j]? = some e → ∀ d ∈ succE p e, ∃ i, i < j ∧ st.out[i]? = some d
  noErr : st.err = false

/-- outcome of processing a list of entries -/
structure WPost (p : Project) (es : List Entry) (st st' : WSt) : Prop where
  good : WGood p st'
  greySame : ∀ k, Grey st' k ↔ Grey st k
  doneMono : ∀ k ∈ st.done, k ∈ st'.done
  emitted : ∀ e ∈ es, e ∈ st'.out
  ext : ∃ new, st'.out = st.out ++ new ∧ ∀ x ∈ new, x.key ∉ st.done ∧ ∃ e ∈ es, Reach (succE p) e x

/-- the step of the fold in `withProcs` -/
def wstep (p : Project) (fuel : Nat) (st : WSt) (e : Entry) : WSt :=
  if e.key ∈ st.done then st
  else
    let st := { st with done := e.key :: st.done }
    if e.deps.isEmpty then { st with out := st.out ++ [e] }
    else match resolve p e.deps with
      | none => { st with err := true }
      | some ds =>
        let st' := withProcs p fuel ds st
        if st'.err then st' else { st' with out := st'.out ++ [e] }

theorem withProcs_succ (p : Project) (fuel : Nat) (es : List Entry) (st : WSt) :
    withProcs p (fuel + 1) es st = es.foldl (wstep p fuel) st := rfl

def WSpec (p : Project) (fuel : Nat) : Prop :=
  ∀ (es : List Entry) (st : WSt), (∀ e ∈ es, e ∈ p) → WGood p st → (∀ e ∈ es, ¬ Grey st e.key) →
    (∀ e ∈ es, ∀ g ∈ p, Grey st g.key → Reach (succE p) g e) →
    unv (p.map (·.key)) st.done < fuel → WPost p es st (withProcs p fuel es st)

variable (p : Project) (hkeys : (p.map (·.key)).Nodup) (hres : ∀ e ∈ p, (resolve p e.deps).isSome)
  (hacyc : ∀ e ∈ p, ¬ ReachPlus (succE p) e e)

theorem key_inj {a b : Entry} (hkeys : (p.map (·.key)).Nodup) (ha : a ∈ p) (hb : b ∈ p) (h : a.key = b.key) : a = b := by
  induction p with
  | nil => simp at ha
  | cons x xs ih =>
    simp only [List.map_cons, List.nodup_cons, List.mem_map, not_exists, not_and] at hkeys
    rcases List.mem_cons.mp ha with rfl | ha' <;> rcases List.mem_cons.mp hb with rfl | hb'
    · rfl
    · exact absurd h.symm (hkeys.1 b hb')
    · exact absurd h (hkeys.1 a ha')
    · exact ih hkeys.2 ha' hb'

theorem getElem?_snoc {β : Type} (l : List β) (x : β) (j : Nat) (y : β) (h : (l ++ [x])[j]? = some y) :
    (j < l.length ∧ l[j]? = some y) ∨ (j = l.length ∧ y = x) := by
  by_cases hj : j < l.length
  · left; rw [List.getElem?_append_left hj] at h; exact ⟨hj, h⟩
  · right
    have hj' : l.length ≤ j := Nat.le_of_not_lt hj
    rw [List.getElem?_append_right hj'] at h
    by_cases h0 : j - l.length = 0
    · rw [h0] at h; simp at h; exact ⟨by omega, h.symm⟩
    · have : ∃ k, j - l.length = k + 1 := ⟨j - l.length - 1, by omega⟩
      obtain ⟨k, hk⟩ := this
      rw [hk] at h; simp at h

theorem mem_iff_getElem? {β : Type} (l : List β) (x : β) : x ∈ l ↔ ∃ i : Nat, l[i]? = some x := by
  constructor
  · intro h
    obtain ⟨i, hi, rfl⟩ := List.getElem_of_mem h
    exact ⟨i, by simp [hi]⟩
  · rintro ⟨i, hi⟩
    exact List.mem_of_getElem? hi

include hkeys hres hacyc in
theorem wstep_post (fuel : Nat) (hrec : WSpec p fuel) (st : WSt) (e : Entry) (he : e ∈ p) (g : WGood p st)
    (hng : ¬ Grey st e.key) (hreach : ∀ g ∈ p, Grey st g.key → Reach (succE p) g e)
    (hfuel : unv (p.map (·.key)) st.done < fuel + 1) :
    WPost p [e] st (wstep p fuel st e) := by
  unfold wstep
  by_cases hd : e.key ∈ st.done
  · -- already handled: it has been emitted (it cannot be waiting on the recursion stack)
    simp only [hd, ↓reduceIte]
    have hout : e.key ∈ st.out.map (·.key) := Classical.not_not.mp fun h => hng ⟨hd, h⟩
    obtain ⟨x, hx, hxe⟩ := List.mem_map.mp hout
    have : x = e := key_inj p hkeys (g.outIn x hx).1 he hxe
    subst this
    exact ⟨g, fun _ => Iff.rfl, fun _ h => h, by simpa using hx, ⟨[], by simp, by simp⟩⟩
  · simp only [hd, ↓reduceIte]
    have hkout : e.key ∉ st.out.map (·.key) := by
      intro h
      obtain ⟨x, hx, hxe⟩ := List.mem_map.mp h
      exact hd (hxe ▸ (g.outIn x hx).2)
    -- state after marking `e` done
    have g1 : WGood p { st with done := e.key :: st.done } :=
      ⟨fun x hx => ⟨(g.outIn x hx).1, List.mem_cons_of_mem _ (g.outIn x hx).2⟩, g.nodup, g.before, g.noErr⟩
    have hgrey1 : ∀ k, Grey { st with done := e.key :: st.done } k ↔ (Grey st k ∨ k = e.key) := by
      intro k
      simp only [Grey, List.mem_cons]
      constructor
      · rintro ⟨h1 | h1, h2⟩
        · exact Or.inr h1
        · exact Or.inl ⟨h1, h2⟩
      · rintro (⟨h1, h2⟩ | h)
        · exact ⟨Or.inr h1, h2⟩
        · subst h; exact ⟨Or.inl rfl, hkout⟩
    -- emitting `e` at the end of an output in which all its dependencies occur
    have emit : ∀ (st2 : WSt), WGood p st2 → (∀ k, Grey st2 k ↔ (Grey st k ∨ k = e.key)) →
        (∀ k ∈ st.done, k ∈ st2.done) → e.key ∈ st2.done → (∀ d ∈ succE p e, d ∈ st2.out) →
        (∃ new, st2.out = st.out ++ new ∧ ∀ x ∈ new, x.key ∉ st.done ∧ Reach (succE p) e x) →
        WPost p [e] st { st2 with out := st2.out ++ [e] } := by
      intro st2 g2 hg2 hdm hed hdeps hext
      have hk2 : e.key ∉ st2.out.map (·.key) := ((hg2 e.key).mpr (Or.inr rfl)).2
      refine ⟨⟨?_, ?_, ?_, g2.noErr⟩, ?_, hdm, ?_, ?_⟩
      · intro x hx
        rcases List.mem_append.mp hx with h | h
        · exact g2.outIn x h
        · simp only [List.mem_singleton] at h; subst h; exact ⟨he, hed⟩
      · simp only [List.map_append, List.map_cons, List.map_nil]
        apply List.nodup_append.mpr
        refine ⟨g2.nodup, by simp, ?_⟩
        intro a ha b hb
        simp only [List.mem_singleton] at hb
        subst hb
        exact fun h => hk2 (h ▸ ha)
      · intro j x hj d hdx
        rcases getElem?_snoc _ _ _ _ hj with ⟨hlt, hj'⟩ | ⟨hjl, rfl⟩
        · obtain ⟨i, hi, hid⟩ := g2.before j x hj' d hdx
          exact ⟨i, hi, by rw [List.getElem?_append_left (by omega)]; exact hid⟩
        · obtain ⟨i, hi⟩ := (mem_iff_getElem? _ _).mp (hdeps d hdx)
          have hil : i < st2.out.length := by
            rcases Nat.lt_or_ge i st2.out.length with h | h
            · exact h
            · rw [List.getElem?_eq_none h] at hi; simp at hi
          exact ⟨i, by omega, by rw [List.getElem?_append_left hil]; exact hi⟩
      · intro k
        simp only [Grey, List.map_append, List.map_cons, List.map_nil, List.mem_append, List.mem_singleton, not_or]
        constructor
        · rintro ⟨h1, h2, h3⟩
          rcases (hg2 k).mp ⟨h1, h2⟩ with h | h
          · exact h
          · exact absurd h h3
        · intro h
          have := (hg2 k).mpr (Or.inl h)
          refine ⟨this.1, this.2, fun hk => ?_⟩
          subst hk
          exact hd h.1
      · intro x hx
        simp only [List.mem_singleton] at hx
        subst hx
        exact List.mem_append_right _ (List.mem_singleton.mpr rfl)
      · obtain ⟨new, hnew, hprop⟩ := hext
        refine ⟨new ++ [e], by simp [hnew], ?_⟩
        intro x hx
        rcases List.mem_append.mp hx with h | h
        · exact ⟨(hprop x h).1, e, by simp, (hprop x h).2⟩
        · simp only [List.mem_singleton] at h; subst h
          exact ⟨hd, x, by simp, Reach.refl _⟩
    by_cases hde : e.deps.isEmpty
    · simp only [hde, ↓reduceIte]
      have hs : succE p e = [] := by
        have : e.deps = [] := List.isEmpty_iff.mp hde
        simp [succE, this, resolve]
      exact emit { st with done := e.key :: st.done } g1 hgrey1 (fun k hk => List.mem_cons_of_mem _ hk)
        (List.mem_cons_self ..) (by simp [hs]) ⟨[], by simp, by simp⟩
    · simp only [hde, Bool.false_eq_true, ↓reduceIte]
      have hsome := hres e he
      cases hr : resolve p e.deps with
      | none => simp [hr] at hsome
      | some ds =>
        simp only
        have hsucc : succE p e = ds := by simp [succE, hr]
        have hdsp : ∀ d ∈ ds, d ∈ p := resolve_mem hr
        -- no dependency is waiting on the stack: that would be a cycle
        have hng1 : ∀ d ∈ ds, ¬ Grey { st with done := e.key :: st.done } d.key := by
          intro d hdd hgr
          rcases (hgrey1 d.key).mp hgr with h | h
          · have hre : Reach (succE p) d e := hreach d (hdsp d hdd) h
            exact hacyc e he ⟨d, hsucc ▸ hdd, hre⟩
          · have : d = e := key_inj p hkeys (hdsp d hdd) he h
            subst this
            exact hacyc d he ⟨d, hsucc ▸ hdd, Reach.refl _⟩
        have hreach1 : ∀ d ∈ ds, ∀ g ∈ p, Grey { st with done := e.key :: st.done } g.key → Reach (succE p) g d := by
          intro d hdd gg hgp hgr
          have hed : d ∈ succE p e := hsucc ▸ hdd
          rcases (hgrey1 gg.key).mp hgr with h | h
          · exact Reach.tail (hreach gg hgp h) hed
          · have : gg = e := key_inj p hkeys hgp he h
            subst this
            exact Reach.tail (Reach.refl _) hed
        have hfuel1 : unv (p.map (·.key)) (e.key :: st.done) < fuel := by
          have := unv_lt (p.map (·.key)) st.done e.key (List.mem_map.mpr ⟨e, he, rfl⟩) hd
          omega
        have post := hrec ds { st with done := e.key :: st.done } hdsp g1 hng1 hreach1 hfuel1
        have hnoerr : (withProcs p fuel ds { st with done := e.key :: st.done }).err = false := post.good.noErr
        have hne : ¬ ((withProcs p fuel ds { st with done := e.key :: st.done }).err = true) := by
          rw [hnoerr]; simp
        rw [if_neg hne]
        refine emit _ post.good (fun k => (post.greySame k).trans (hgrey1 k))
          (fun k hk => post.doneMono k (List.mem_cons_of_mem _ hk)) (post.doneMono _ (List.mem_cons_self ..))
          (fun d hd => post.emitted d (hsucc ▸ hd)) ?_
        obtain ⟨new, hnew, hprop⟩ := post.ext
        refine ⟨new, hnew, fun x hx => ⟨fun h => (hprop x hx).1 (List.mem_cons_of_mem _ h), ?_⟩⟩
        obtain ⟨d, hdd, hdx⟩ := (hprop x hx).2
        exact Reach.head (hsucc ▸ hdd) hdx

include hkeys hres hacyc in
theorem withProcs_spec : ∀ fuel, WSpec p fuel := by
  intro fuel
  induction fuel with
  | zero => intro es st _ _ _ _ hf; omega
  | succ fuel ih =>
    intro es
    induction es with
    | nil =>
      intro st _ g _ _ _
      rw [withProcs_succ, List.foldl_nil]
      exact ⟨g, fun _ => Iff.rfl, fun _ h => h, by simp, ⟨[], by simp, by simp⟩⟩
    | cons e es ihes =>
      intro st hes g hng hreach hfuel
      rw [withProcs_succ, List.foldl_cons, ← withProcs_succ]
      have he : e ∈ p := hes e (List.mem_cons_self ..)
      have p1 := wstep_post p hkeys hres hacyc fuel ih st e he g (hng e (List.mem_cons_self ..))
        (hreach e (List.mem_cons_self ..)) hfuel
      have hfuel1 : unv (p.map (·.key)) (wstep p fuel st e).done < fuel + 1 :=
        Nat.lt_of_le_of_lt (unv_mono _ _ _ p1.doneMono) hfuel
      have p2 := ihes (wstep p fuel st e) (fun x hx => hes x (List.mem_cons_of_mem _ hx)) p1.good
        (fun x hx h => hng x (List.mem_cons_of_mem _ hx) ((p1.greySame _).mp h))
        (fun x hx gg hgp h => hreach x (List.mem_cons_of_mem _ hx) gg hgp ((p1.greySame _).mp h)) hfuel1
      refine ⟨p2.good, fun k => (p2.greySame k).trans (p1.greySame k), fun k hk => p2.doneMono k (p1.doneMono k hk), ?_, ?_⟩
      · intro x hx
        rcases List.mem_cons.mp hx with rfl | hx
        · obtain ⟨new, hnew, _⟩ := p2.ext
          rw [hnew]
          exact List.mem_append_left _ (p1.emitted x (List.mem_singleton.mpr rfl))
        · exact p2.emitted x hx
      · obtain ⟨n1, h1, q1⟩ := p1.ext
        obtain ⟨n2, h2, q2⟩ := p2.ext
        refine ⟨n1 ++ n2, by rw [h2, h1, List.append_assoc], ?_⟩
        intro x hx
        rcases List.mem_append.mp hx with h | h
        · obtain ⟨a, b, hb, c⟩ := q1 x h
          simp only [List.mem_singleton] at hb
          subst hb
          exact ⟨a, b, List.mem_cons_self .., c⟩
        · obtain ⟨a, b, hb, c⟩ := q2 x h
          exact ⟨fun hh => a (p1.doneMono _ hh), b, List.mem_cons_of_mem _ hb, c⟩

end PC.Plan
