import PC.Model.Sup
/-! How instance records (`*Process`) evolve in `Sup`: every step only moves latches forward, and an
    instance that becomes done has all of its wait latches released (fix F5). Proved once for every
    helper of the model, then lifted to `stepThread`, `runThread`, `step` and to reachable states. -/
namespace PC.Sup

/-- "ended ⇒ every waiter is released" for one instance record -/
def EndedI (x : Inst) : Prop := x.done = true → x.readyDone = true ∧ x.runCancelled = true ∧ x.logReady ≠ .none

/-- one instance record may only move forward -/
structure Inst.Le (a b : Inst) : Prop where
  name : a.name = b.name
  seq : a.seq = b.seq
  done : a.done = true → b.done = true
  started : a.started = true → b.started = true
  readyDone : a.readyDone = true → b.readyDone = true
  runCancelled : a.runCancelled = true → b.runCancelled = true
  logReady : a.logReady ≠ .none → b.logReady = a.logReady
  ended : b.done = true → a.done = false → b.readyDone = true ∧ b.runCancelled = true ∧ b.logReady ≠ .none

theorem Inst.Le.refl (a : Inst) : Inst.Le a a :=
  ⟨rfl, rfl, id, id, id, id, fun _ => rfl, fun h1 h2 => by simp [h1] at h2⟩

theorem Inst.Le.trans {a b c : Inst} (h1 : Inst.Le a b) (h2 : Inst.Le b c) : Inst.Le a c where
  name := h1.name.trans h2.name
  seq := h1.seq.trans h2.seq
  done := fun h => h2.done (h1.done h)
  started := fun h => h2.started (h1.started h)
  readyDone := fun h => h2.readyDone (h1.readyDone h)
  runCancelled := fun h => h2.runCancelled (h1.runCancelled h)
  logReady := fun h => by
    have e1 := h1.logReady h
    have : b.logReady ≠ .none := by rw [e1]; exact h
    rw [h2.logReady this, e1]
  ended := fun hc ha => by
    cases hb : b.done with
    | false => exact h2.ended hc hb
    | true =>
      obtain ⟨r1, r2, r3⟩ := h1.ended hb ha
      refine ⟨h2.readyDone r1, h2.runCancelled r2, ?_⟩
      rw [h2.logReady r3]; exact r3

theorem inst_default' (s : Sys) (d : IId) (h : s.insts.length ≤ d) : s.inst d = { name := 0, seq := 0 } := by
  unfold Sys.inst
  simp [List.getD_eq_getElem?_getD, List.getElem?_eq_none h]

/-- a latch can only be set on an instance that exists -/
theorem latchB_lt {s : Sys} {c : Cond} {d : IId} (h : latchB s c d = true) : d < s.insts.length := by
  apply Classical.byContradiction
  intro hn
  have hd := inst_default' s d (Nat.le_of_not_lt hn)
  unfold latchB at h
  cases c <;> simp [hd] at h

/-- latches are `Inst.Le`-monotone -/
theorem latchB_le {s s' : Sys} {c : Cond} {d : IId} (l : Inst.Le (s.inst d) (s'.inst d))
    (h : latchB s c d = true) : latchB s' c d = true := by
  unfold latchB at h ⊢
  cases c with
  | completed => exact l.done h
  | completedOk => exact l.done h
  | healthy => exact l.readyDone h
  | logReady =>
    simp only [bne_iff_ne, ne_eq] at h ⊢
    rw [l.logReady h]; exact h
  | started =>
    simp only [Bool.or_eq_true] at h ⊢
    rcases h with h | h
    · exact Or.inl (l.started h)
    · exact Or.inr (l.runCancelled h)

/-- What one step by thread `t` (or an external event, with `t` out of range) may do:
    * the instance table only moves forward; new records satisfy `EndedI`;
    * no other thread's record changes, threads are only appended, `t` keeps its kind;
    * the project exit code, once recorded, is never changed (`exitCodeOnce`);
    * configuration, granularity and shutdown mode are constant. -/
structure SysLe (t : Tid) (s s' : Sys) : Prop where
  len : s.insts.length ≤ s'.insts.length
  old : ∀ i, i < s.insts.length → Inst.Le (s.inst i) (s'.inst i)
  new : ∀ i, s.insts.length ≤ i → i < s'.insts.length → EndedI (s'.inst i)
  tlen : s.threads.length ≤ s'.threads.length
  tframe : ∀ u, u < s.threads.length → u ≠ t → s'.thr u = s.thr u
  tkind : (s'.thr t).kind = (s.thr t).kind ∨ s.threads.length ≤ t
  exit : s.exitCodeSet = true → s'.exitCodeSet = true ∧ s'.exitCode = s.exitCode
  cfgs : s'.cfgs = s.cfgs
  gran : s'.gran = s.gran
  ordered : s'.ordered = s.ordered
  /-- the ghost gate log only grows -/
  gate : ∀ e ∈ s.gate, e ∈ s'.gate
  /-- a wait recorded as passed was passed on a set latch -/
  gateNew : ∀ i d c, GateEv.passed i d c ∈ s'.gate → GateEv.passed i d c ∈ s.gate ∨ latchB s' c d = true
  /-- threads created by the step start at `begin` (the slot `t` itself is exempt: an external
      event creates the thread in slot `t`) -/
  tnew : ∀ u, s.threads.length ≤ u → u < s'.threads.length →
    ((s'.thr u).pc = .begin ∧ ∀ i, (s'.thr u).kind = .proc i → i < s'.insts.length) ∨ u = t

variable {t : Tid}

theorem SysLe.refl (s : Sys) : SysLe t s s :=
  ⟨Nat.le_refl _, fun i _ => Inst.Le.refl _, fun i h1 h2 => absurd h2 (by omega), Nat.le_refl _,
   fun _ _ _ => rfl, Or.inl rfl, fun h => ⟨h, rfl⟩, rfl, rfl, rfl, fun _ h => h, fun _ _ _ h => Or.inl h, fun u h1 h2 => absurd h2 (by omega)⟩

theorem SysLe.trans {a b c : Sys} (h1 : SysLe t a b) (h2 : SysLe t b c) : SysLe t a c where
  len := Nat.le_trans h1.len h2.len
  old := fun i hi => (h1.old i hi).trans (h2.old i (Nat.lt_of_lt_of_le hi h1.len))
  new := fun i hi hc => by
    by_cases hb : i < b.insts.length
    · have e := h1.new i hi hb
      have l := h2.old i hb
      intro hd
      cases hbd : (b.inst i).done with
      | false => exact l.ended hd hbd
      | true =>
        obtain ⟨r1, r2, r3⟩ := e hbd
        refine ⟨l.readyDone r1, l.runCancelled r2, ?_⟩
        rw [l.logReady r3]; exact r3
    · exact h2.new i (by omega) hc
  tlen := Nat.le_trans h1.tlen h2.tlen
  tframe := fun u hu hne => by
    rw [h2.tframe u (Nat.lt_of_lt_of_le hu h1.tlen) hne, h1.tframe u hu hne]
  tkind := by
    rcases h1.tkind with e1 | e1
    · rcases h2.tkind with e2 | e2
      · exact Or.inl (e2.trans e1)
      · exact Or.inr (Nat.le_trans h1.tlen e2)
    · exact Or.inr e1
  exit := fun h => by
    obtain ⟨e1, e2⟩ := h1.exit h
    obtain ⟨e3, e4⟩ := h2.exit e1
    exact ⟨e3, e4.trans e2⟩
  cfgs := h2.cfgs.trans h1.cfgs
  gran := h2.gran.trans h1.gran
  ordered := h2.ordered.trans h1.ordered
  gate := fun e he => h2.gate e (h1.gate e he)
  gateNew := fun i d cnd he => by
    rcases h2.gateNew i d cnd he with e | e
    · rcases h1.gateNew i d cnd e with e1 | e1
      · exact Or.inl e1
      · exact Or.inr (latchB_le (h2.old d (latchB_lt e1)) e1)
    · exact Or.inr e
  tnew := fun u hu hc => by
    by_cases hb : u < b.threads.length
    · rcases h1.tnew u hu hb with e | e
      · by_cases hut : u = t
        · exact Or.inr hut
        · left; rw [h2.tframe u hb hut]
          exact ⟨e.1, fun i hi => Nat.lt_of_lt_of_le (e.2 i hi) h2.len⟩
      · exact Or.inr e
    · exact h2.tnew u (Nat.le_of_not_lt hb) hc

/-- the parts of the state the relation looks at are literally unchanged -/
structure Same (s s' : Sys) : Prop where
  insts : s'.insts = s.insts
  threads : s'.threads = s.threads
  exitCode : s'.exitCode = s.exitCode
  exitCodeSet : s'.exitCodeSet = s.exitCodeSet
  cfgs : s'.cfgs = s.cfgs
  gran : s'.gran = s.gran
  ordered : s'.ordered = s.ordered
  gate : s'.gate = s.gate

theorem SysLe.of_same {s s' : Sys} (h : Same s s') : SysLe t s s' := by
  refine ⟨by rw [h.insts]; exact Nat.le_refl _, fun i _ => ?_, fun i h1 h2 => absurd h2 (by rw [h.insts]; omega),
    by rw [h.threads]; exact Nat.le_refl _, fun u _ _ => ?_, Or.inl ?_, fun hx => ?_, h.cfgs, h.gran, h.ordered,
    fun e he => by rw [h.gate]; exact he, fun i d c he => Or.inl (by rw [h.gate] at he; exact he),
    fun u h1 h2 => absurd h2 (by rw [h.threads]; omega)⟩
  · unfold Sys.inst; rw [h.insts]; exact Inst.Le.refl _
  · unfold Sys.thr; rw [h.threads]
  · unfold Sys.thr; rw [h.threads]
  · rw [h.exitCodeSet, h.exitCode]; exact ⟨hx, rfl⟩

/-- `same`: the update touches none of the observed parts (closed by `rfl` componentwise) -/
macro "same" : tactic => `(tactic| exact ⟨rfl, rfl, rfl, rfl, rfl, rfl, rfl, rfl⟩)

/-! ### primitives -/

@[simp] theorem setPs_insts (s : Sys) (n f) : (s.setPs n f).insts = s.insts := rfl
@[simp] theorem setPc_insts (s : Sys) (t pc) : (s.setPc t pc).insts = s.insts := rfl
@[simp] theorem emit_insts (s : Sys) (o) : (s.emit o).insts = s.insts := rfl
@[simp] theorem spawn_insts (s : Sys) (k) : (s.spawn k).insts = s.insts := rfl

theorem inst_setInst (s : Sys) (i j : IId) (f : Inst → Inst) (hj : j < s.insts.length) :
    (s.setInst i f).inst j = if i = j then f (s.inst j) else s.inst j := by
  unfold Sys.inst Sys.setInst
  simp only [List.getD_eq_getElem?_getD, List.getElem?_modify]
  by_cases h : i = j
  · subst h; simp [hj]
  · simp [h]

theorem setInst_le (s : Sys) (i : IId) (f : Inst → Inst) (hf : ∀ x, Inst.Le x (f x)) :
    SysLe t s (s.setInst i f) := by
  refine ⟨by simp [Sys.setInst], fun j hj => ?_, fun j h1 h2 => absurd h2 (by simp [Sys.setInst]; omega),
    Nat.le_refl _, fun _ _ _ => rfl, Or.inl rfl, fun h => ⟨h, rfl⟩, rfl, rfl, rfl, fun _ h => h, fun _ _ _ h => Or.inl h,
    fun u h1 h2 => absurd h2 (by simp [Sys.setInst]; omega)⟩
  rw [inst_setInst _ _ _ _ hj]
  split
  · exact hf _
  · exact Inst.Le.refl _

theorem setPs_le (s : Sys) (n f) : SysLe t s (s.setPs n f) := SysLe.of_same (by same)
theorem emit_le (s : Sys) (o) : SysLe t s (s.emit o) := SysLe.of_same (by same)

/-- recording a lookup (`found` / `notFound`) -/
theorem note_le (s : Sys) (e : GateEv) (he : ∀ i d c, e ≠ .passed i d c) : SysLe t s (s.note e) :=
  ⟨Nat.le_refl _, fun i _ => Inst.Le.refl _, fun i h1 h2 => absurd h2 (by simp [Sys.note]; omega), Nat.le_refl _,
   fun _ _ _ => rfl, Or.inl rfl, fun h => ⟨h, rfl⟩, rfl, rfl, rfl, fun x hx => List.mem_cons_of_mem _ hx,
   fun i d c h => by
     rcases List.mem_cons.mp h with h | h
     · exact absurd h.symm (he i d c)
     · exact Or.inl h,
   fun u h1 h2 => absurd h2 (by simp [Sys.note]; omega)⟩

/-- recording a passed wait: only when the latch is set -/
theorem notePassed_le (s : Sys) (i d : IId) (c : Cond) : SysLe t s (s.notePassed i d c) := by
  unfold Sys.notePassed
  split
  · rename_i hl
    exact ⟨Nat.le_refl _, fun i _ => Inst.Le.refl _, fun i h1 h2 => absurd h2 (by simp [Sys.note]; omega), Nat.le_refl _,
      fun _ _ _ => rfl, Or.inl rfl, fun h => ⟨h, rfl⟩, rfl, rfl, rfl, fun x hx => List.mem_cons_of_mem _ hx,
      fun i' d' c' h => by
        rcases List.mem_cons.mp h with h | h
        · cases h; exact Or.inr hl
        · exact Or.inl h,
      fun u h1 h2 => absurd h2 (by simp [Sys.note]; omega)⟩
  · exact SysLe.refl _

theorem thr_setPc_ne (s : Sys) (t u : Tid) (pc : Pc) (h : u ≠ t) : (s.setPc t pc).thr u = s.thr u := by
  unfold Sys.thr Sys.setPc
  simp only [List.getD_eq_getElem?_getD, List.getElem?_modify]
  have : ¬ t = u := fun e => h e.symm
  simp [this]

theorem thr_setPc_kind (s : Sys) (t : Tid) (pc : Pc) : ((s.setPc t pc).thr t).kind = (s.thr t).kind := by
  unfold Sys.thr Sys.setPc
  simp only [List.getD_eq_getElem?_getD, List.getElem?_modify]
  cases h : s.threads[t]? <;> simp

theorem setPc_le (s : Sys) (t pc) : SysLe t s (s.setPc t pc) := by
  refine ⟨Nat.le_refl _, fun i _ => Inst.Le.refl _, fun i h1 h2 => absurd h2 (by simp [Sys.setPc]; omega),
    by simp [Sys.setPc], fun u _ hne => thr_setPc_ne s t u pc hne, Or.inl (thr_setPc_kind s t pc),
    fun h => ⟨h, rfl⟩, rfl, rfl, rfl, fun _ h => h, fun _ _ _ h => Or.inl h,
    fun u h1 h2 => absurd h2 (by simp [Sys.setPc]; omega)⟩

theorem spawn_le (s : Sys) (k) (hk : ∀ i, k = .proc i → i < s.insts.length) : SysLe t s (s.spawn k) := by
  refine ⟨Nat.le_refl _, fun i _ => Inst.Le.refl _, fun i h1 h2 => absurd h2 (by simp [Sys.spawn]; omega),
    by simp [Sys.spawn], fun u hu _ => ?_, ?_, fun h => ⟨h, rfl⟩, rfl, rfl, rfl, fun _ h => h, fun _ _ _ h => Or.inl h, fun u h1 h2 => ?_⟩
  · unfold Sys.thr Sys.spawn
    simp [List.getD_eq_getElem?_getD, List.getElem?_append_left hu]
  rotate_left
  · left
    have : u = s.threads.length := by simp [Sys.spawn] at h2; omega
    subst this
    have e : (s.spawn k).thr s.threads.length = { kind := k } := by
      unfold Sys.thr Sys.spawn
      simp [List.getD_eq_getElem?_getD]
    rw [e]
    exact ⟨rfl, fun i hi => hk i hi⟩
  · by_cases ht : t < s.threads.length
    · left
      unfold Sys.thr Sys.spawn
      simp [List.getD_eq_getElem?_getD, List.getElem?_append_left ht]
    · right; exact Nat.le_of_not_lt ht

/-- chaining helper -/
theorem SysLe.then {a b c : Sys} (h1 : SysLe t a b) (h2 : SysLe t b c) : SysLe t a c := h1.trans h2

/-- only the observed parts of the left state matter -/
theorem SysLe.congr_left {s0 s s' : Sys} (h : SysLe t s s') (e : Same s0 s) : SysLe t s0 s' :=
  (SysLe.of_same e).trans h

/-- only the observed parts of the right state matter -/
theorem SysLe.congr {s s' s'' : Sys} (h : SysLe t s s') (e : Same s' s'') : SysLe t s s'' :=
  h.trans (SysLe.of_same e)

/-- `peel h`: reduce `SysLe t a (f x)` to `SysLe t a x` using `h : SysLe t x (f x)` -/
macro "peel " t:term : tactic => `(tactic| refine SysLe.trans ?_ $t)
/-- `upd h`: `SysLe t a c` from `h : SysLe t a' c` where `a'` is an unobserved record update of `a` -/
macro "upd " t:term : tactic => `(tactic| exact SysLe.congr_left $t (by same))
/-- close `SysLe t s s` or an unobserved record update -/
macro "done_le" : tactic => `(tactic| first | exact SysLe.refl _ | exact SysLe.of_same (by same))

/-! ### the instance updates used by the model are all forward moves -/

theorem endInst_le (x : Inst) : Inst.Le x (endInst x) := by
  refine ⟨rfl, rfl, fun _ => rfl, id, fun _ => rfl, fun _ => rfl, fun h => ?_, fun _ _ => ⟨rfl, rfl, ?_⟩⟩
  · simp [endInst, h]
  · simp only [endInst]; split <;> simp_all

macro "inst_le" : tactic =>
  `(tactic| (intro x; refine ⟨rfl, rfl, ?_, ?_, ?_, ?_, ?_, ?_⟩ <;> simp_all))

/-! ### helpers -/

theorem setState_le (s : Sys) (i st) : SysLe t s (setState s i st) := by
  unfold setState
  simp only
  cases st <;> simp only <;>
    first
    | exact (setPs_le _ _ _).then (emit_le _ _)
    | exact ((setPs_le _ _ _).then (emit_le _ _)).then (setPs_le _ _ _)
    | exact (((setPs_le _ _ _).then (emit_le _ _)).then (setPs_le _ _ _)).then (emit_le _ _)

theorem setExit_le (s : Sys) (n c) : SysLe t s (setExit s n c) := by
  unfold setExit; exact (setPs_le _ _ _).then (emit_le _ _)

theorem recordExit_le (s : Sys) (c) : SysLe t s (recordExit s c) := by
  unfold recordExit
  split
  · exact SysLe.refl _
  · rename_i h
    peel (emit_le _ _)
    refine ⟨Nat.le_refl _, fun i _ => Inst.Le.refl _, fun i h1 h2 => absurd h2 (by simp; omega), Nat.le_refl _,
      fun _ _ _ => rfl, Or.inl rfl, fun hx => absurd hx h, rfl, rfl, rfl, fun _ h => h, fun _ _ _ h => Or.inl h,
      fun u h1 h2 => absurd h2 (by simp; omega)⟩

theorem onProcessEnd_le (s : Sys) (i st) : SysLe t s (onProcessEnd s i st) := by
  unfold onProcessEnd
  exact ((setInst_le s i endInst endInst_le).then (setState_le _ _ _)).then (emit_le _ _)

theorem cmdExit_le (s : Sys) (i c) : SysLe t s (cmdExit s i c) := setInst_le _ _ _ (by inst_le)

theorem cmdStop_le (s : Sys) (i sig) : SysLe t s (cmdStop s i sig) := by
  unfold cmdStop
  simp only
  split
  · split
    · exact (emit_le _ _).then (cmdExit_le _ _ _)
    · split
      · exact (emit_le _ _).then (cmdExit_le _ _ _)
      · exact emit_le _ _
  · exact emit_le _ _

theorem decideRestart_le (s : Sys) (i) : SysLe t s (decideRestart s i).2 := setInst_le _ _ _ (by inst_le)

theorem append_le (s : Sys) (x : Inst) (hx : EndedI x) : SysLe t s { s with insts := s.insts ++ [x] } := by
  refine ⟨by simp, fun j hj => ?_, fun j h1 h2 => ?_, Nat.le_refl _, fun _ _ _ => rfl, Or.inl rfl,
    fun h => ⟨h, rfl⟩, rfl, rfl, rfl, fun _ h => h, fun i d c h => ?_, fun u h1 h2 => absurd h2 (by simp; omega)⟩
  rotate_left 2
  · exact Or.inl h
  · have : ({ s with insts := s.insts ++ [x] } : Sys).inst j = s.inst j := by
      unfold Sys.inst; simp [List.getD_eq_getElem?_getD, List.getElem?_append_left hj]
    rw [this]; exact Inst.Le.refl _
  · have hj : j = s.insts.length := by simp at h2; omega
    subst hj
    have : ({ s with insts := s.insts ++ [x] } : Sys).inst s.insts.length = x := by
      unfold Sys.inst; simp [List.getD_eq_getElem?_getD]
    rw [this]; exact hx

theorem spawnProc_le (s : Sys) (n) : SysLe t s (spawnProc s n) := by
  unfold spawnProc newInst
  simp only
  peel (spawn_le _ _ (by
    intro i h
    cases h
    have e : ∀ (st : Status) (s0 : Sys) (j : IId), (setState s0 j st).insts = s0.insts := by
      intro st s0 j; unfold setState; cases st <;> rfl
    simp [e]))
  have h1 : SysLe t s ({ s with insts := s.insts ++ [{ name := n, seq := (s.insts.filter (·.name = n)).length + 1 }] } : Sys) :=
    append_le s _ (by intro h; simp at h)
  exact (h1.then (setState_le _ _ _)).congr (by same)

theorem gotoCleanup_le (s : Sys) (t) : SysLe t s (gotoCleanup s t) := by
  unfold gotoCleanup; peel (setPc_le _ _ _); done_le

theorem gotoStop_le (s : Sys) (t i cr k) : SysLe t s (gotoStop s t i cr k) := by
  unfold gotoStop
  exact (setInst_le _ _ _ (by inst_le)).then (setPc_le _ _ _)

theorem apiRet_le (s : Sys) (t r) : SysLe t s (apiRet s t r) := by
  unfold apiRet; split
  · exact (emit_le _ _).then (setPc_le _ _ _)
  all_goals exact setPc_le _ _ _

theorem apiSpawn_le (s : Sys) (t n) : SysLe t s (apiSpawn s t n) := by
  unfold apiSpawn
  simp only
  split
  · peel (setPc_le _ _ _); peel (emit_le _ _); exact spawnProc_le _ _
  all_goals (peel (setPc_le _ _ _); exact spawnProc_le _ _)

theorem addDone_le (s : Sys) (t : Tid) (i : IId) : SysLe t s (addDone s i) := by
  unfold addDone; done_le
theorem doSkip_le (s : Sys) (t i) : SysLe t s (doSkip s t i) := by
  unfold doSkip; exact (addDone_le _ _ _).then ((onProcessEnd_le _ _ _).then (setPc_le _ _ _))

theorem afterDeps_le (s : Sys) (t) : SysLe t s (afterDeps s t) := setPc_le _ _ _

theorem lookupRunning_le (s : Sys) (t i k c r) : SysLe t s (lookupRunning s t i k c r) := by
  unfold lookupRunning; split
  · exact ((note_le _ _ (by intro _ _ _ h; cases h)).then (emit_le _ _)).then (setPc_le _ _ _)
  · exact ((note_le _ _ (by intro _ _ _ h; cases h)).then (emit_le _ _)).then (setPc_le _ _ _)

theorem depStep_le (s : Sys) (t i h r) : SysLe t s (depStep s t i h r) := by
  unfold depStep
  split
  · exact afterDeps_le _ _
  · simp only
    split
    · exact (((emit_le _ _).then (note_le _ _ (by intro _ _ _ h; cases h))).then (emit_le _ _)).then (setPc_le _ _ _)
    · split
      · exact (emit_le _ _).then (lookupRunning_le _ _ _ _ _ _)
      · exact (emit_le _ _).then (setPc_le _ _ _)

theorem doLaunch_le (s : Sys) (t i) : SysLe t s (doLaunch s t i) := by
  unfold doLaunch
  simp only
  split
  · peel (setPc_le _ _ _)
    peel (onProcessEnd_le _ _ _)
    peel (setExit_le _ _ _)
    peel (emit_le _ _)
    exact setState_le _ _ _
  · peel (setPc_le _ _ _)
    have key : SysLe t s
        (({ (setState s i .running).emit (.launch ((setState s i .running).nameOf i)) with
            launchClock := ((setState s i .running).emit (.launch ((setState s i .running).nameOf i))).launchClock + 1 } : Sys).setInst i
          fun x => { x with cmd := .alive, launches := x.launches + 1,
                            launchedAt := ((setState s i .running).emit (.launch ((setState s i .running).nameOf i))).launchClock + 1 }) := by
      peel (setInst_le _ _ _ (by inst_le))
      have hE : SysLe t s ((setState s i .running).emit (.launch ((setState s i .running).nameOf i))) :=
        (setState_le s i .running).then (emit_le _ _)
      exact hE.congr (by same)
    split
    · exact key.trans (spawn_le _ _ (by intro i h; cases h))
    · exact key

theorem foldl_le {α : Type} (f : Sys → α → Sys) (hf : ∀ s a, SysLe t s (f s a)) (l : List α) (s : Sys) :
    SysLe t s (l.foldl f s) := by
  induction l generalizing s with
  | nil => exact SysLe.refl _
  | cons a l ih => exact (hf s a).then (ih _)

theorem sdBody_le (s : Sys) (t h k) : SysLe t s (sdBody s t h k) := by
  unfold sdBody
  simp only
  peel (setPc_le _ _ _)
  upd (foldl_le _ (fun s i => setInst_le _ _ _ (by inst_le)) _ _)

theorem sdSeqNext_le (s : Sys) (t r k) : SysLe t s (sdSeqNext s t r k) := by
  unfold sdSeqNext; split
  · exact setPc_le _ _ _
  · exact gotoStop_le _ _ _ _ _

theorem sdReturn_le (s : Sys) (t k) : SysLe t s (sdReturn s t k) := by
  unfold sdReturn
  simp only
  split
  · split
    · peel (setPc_le _ _ _); peel (emit_le _ _); peel (emit_le _ _); done_le
    all_goals (peel (setPc_le _ _ _); peel (emit_le _ _); done_le)
  · peel (gotoCleanup_le _ _); peel (emit_le _ _); done_le
  · peel (gotoCleanup_le _ _); peel (emit_le _ _); done_le

theorem stopReturn_le (s : Sys) (t k) : SysLe t s (stopReturn s t k) := by
  unfold stopReturn
  split
  · split
    · exact (emit_le _ _).then (setPc_le _ _ _)
    all_goals exact setPc_le _ _ _
  · exact setPc_le _ _ _
  · peel (sdSeqNext_le _ _ _ _)
    upd (spawn_le _ _ (by intro i h; cases h))
  · exact setPc_le _ _ _
  · exact setPc_le _ _ _

theorem apiFirst_le (s : Sys) (t h op) : SysLe t s (apiFirst s t h op) := by
  unfold apiFirst
  cases op with
  | start n => simp only; split <;> first | exact apiRet_le _ _ _ | exact setPc_le _ _ _
  | stop n =>
    simp only; split
    · exact (setInst_le _ _ _ (by inst_le)).then (gotoStop_le _ _ _ _ _)
    · split <;> exact apiRet_le _ _ _
  | restart n =>
    simp only; split
    · exact (setInst_le _ _ _ (by inst_le)).then (gotoStop_le _ _ _ _ _)
    · split
      · exact setPc_le _ _ _
      · exact apiRet_le _ _ _
  | state n => simp only; split <;> exact apiRet_le _ _ _
  | shutdown => exact setPc_le _ _ _
  | runMain =>
    simp only
    peel (setPc_le _ _ _)
    upd (foldl_le _ spawnProc_le _ _)

/-! ### the arms -/

theorem armDepLookup_le (s : Sys) (t d c r) : SysLe t s (armDepLookup s t d c r) := by
  unfold armDepLookup; cases c <;> exact setPc_le _ _ _
theorem armWaitDone_le (s : Sys) (t i d ok r) : SysLe t s (armWaitDone s t i d ok r) := by
  unfold armWaitDone; split
  · exact doSkip_le _ _ _
  · exact (notePassed_le _ _ _ _).then (setPc_le _ _ _)
theorem armWaitReady_le (s : Sys) (t i d r) : SysLe t s (armWaitReady s t i d r) := by
  unfold armWaitReady; split
  · exact (notePassed_le _ _ _ _).then (setPc_le _ _ _)
  · exact doSkip_le _ _ _
theorem armWaitLogReady_le (s : Sys) (t i d r) : SysLe t s (armWaitLogReady s t i d r) := by
  unfold armWaitLogReady; split
  · exact (notePassed_le _ _ _ _).then (setPc_le _ _ _)
  · exact doSkip_le _ _ _
theorem armProcSkipped_le (s : Sys) (t i) : SysLe t s (armProcSkipped s t i) := by
  unfold armProcSkipped; split
  · exact (recordExit_le _ _).then (setPc_le _ _ _)
  · exact gotoCleanup_le _ _
theorem armRunEnter_le (s : Sys) (t i) : SysLe t s (armRunEnter s t i) := by
  unfold armRunEnter; split
  · exact (onProcessEnd_le _ _ _).then (setPc_le _ _ _)
  · exact setPc_le _ _ _
theorem armRunChecked_le (s : Sys) (t i) : SysLe t s (armRunChecked s t i) := by
  unfold armRunChecked; split
  · exact ((setExit_le _ _ _).then (onProcessEnd_le _ _ _)).then (setPc_le _ _ _)
  · exact ((setInst_le _ _ _ (by inst_le)).then (emit_le _ _)).then (doLaunch_le _ _ _)
theorem armCmdWait_le (s : Sys) (t i) : SysLe t s (armCmdWait s t i) := by
  unfold armCmdWait; split
  · exact (setExit_le _ _ _).then (setPc_le _ _ _)
  · exact SysLe.refl _
theorem armRunExited_le (s : Sys) (t i) : SysLe t s (armRunExited s t i) := by
  unfold armRunExited
  simp only
  refine (decideRestart_le s i).then ?_
  split
  · exact (((setState_le _ _ _).then (setPs_le _ _ _)).then (emit_le _ _)).then (setPc_le _ _ _)
  · exact (onProcessEnd_le _ _ _).then (setPc_le _ _ _)
theorem armBackoff_le (s : Sys) (t i) : SysLe t s (armBackoff s t i) := by
  unfold armBackoff; split
  · exact (onProcessEnd_le _ _ _).then (setPc_le _ _ _)
  · exact setPc_le _ _ _
theorem armProcRan_le (s : Sys) (t i c) : SysLe t s (armProcRan s t i c) := by
  unfold armProcRan; peel (setPc_le _ _ _); done_le
theorem armProcDoneAdded_le (s : Sys) (t i c) : SysLe t s (armProcDoneAdded s t i c) := by
  unfold armProcDoneAdded; simp only; split
  · exact (recordExit_le _ _).then (setPc_le _ _ _)
  · exact gotoCleanup_le _ _
theorem armLockCleanup_le (s : Sys) (t i) : SysLe t s (armLockCleanup s t i) := by
  unfold armLockCleanup; split
  · peel (setPc_le _ _ _); done_le
  · exact setPc_le _ _ _

theorem stepProc_le (s : Sys) (t i h pc) : SysLe t s (stepProc s t i h pc) := by
  cases pc <;> simp only [stepProc] <;>
    first
    | exact SysLe.refl _
    | exact setPc_le _ _ _
    | exact (notePassed_le _ _ _ _).then (setPc_le _ _ _)
    | exact depStep_le _ _ _ _ _
    | exact lookupRunning_le _ _ _ _ _ _
    | exact armDepLookup_le _ _ _ _ _
    | exact armWaitDone_le _ _ _ _ _ _
    | exact armWaitReady_le _ _ _ _ _
    | exact armWaitLogReady_le _ _ _ _ _
    | exact armProcSkipped_le _ _ _
    | exact armRunEnter_le _ _ _
    | exact armRunChecked_le _ _ _
    | exact armCmdWait_le _ _ _
    | exact armRunExited_le _ _ _
    | exact armBackoff_le _ _ _
    | exact doLaunch_le _ _ _
    | exact armProcRan_le _ _ _ _
    | exact armProcDoneAdded_le _ _ _ _
    | exact armLockCleanup_le _ _ _

theorem armStopEnter_le (s : Sys) (t i cr k) : SysLe t s (armStopEnter s t i cr k) := by
  unfold armStopEnter; split <;> exact setPc_le _ _ _
theorem armStopNotRunning_le (s : Sys) (t i k) : SysLe t s (armStopNotRunning s t i k) := by
  unfold armStopNotRunning; simp only; split
  · exact (onProcessEnd_le _ _ _).then (stopReturn_le _ _ _)
  · exact stopReturn_le _ _ _
theorem armStopChecked_le (s : Sys) (t i cr k) : SysLe t s (armStopChecked s t i cr k) := by
  unfold armStopChecked; exact (setState_le _ _ _).then (setPc_le _ _ _)

theorem stopMarkedPrep_le (s : Sys) (i cr) : SysLe t s (stopMarkedPrep s i cr) := by
  unfold stopMarkedPrep
  apply setInst_le
  intro x
  refine ⟨rfl, rfl, id, id, ?_, id, ?_, ?_⟩
  · intro h; simp [h]
  · intro h; simp [h]
  · intro h1 h2; simp_all

theorem armStopMarked_le (s : Sys) (t i cr k) : SysLe t s (armStopMarked s t i cr k) := by
  unfold armStopMarked
  simp only
  split
  · peel (stopReturn_le _ _ _)
    exact stopMarkedPrep_le _ _ _
  · split
    · peel (setPc_le _ _ _)
      peel (setInst_le _ _ _ (by inst_le))
      peel (cmdStop_le _ _ _)
      exact stopMarkedPrep_le _ _ _
    · peel (stopReturn_le _ _ _)
      peel (cmdStop_le _ _ _)
      exact stopMarkedPrep_le _ _ _
theorem armStopWaitKill_le (s : Sys) (t i k) : SysLe t s (armStopWaitKill s t i k) := by
  unfold armStopWaitKill; split
  · exact (cmdStop_le _ _ _).then (stopReturn_le _ _ _)
  · exact stopReturn_le _ _ _

theorem armSdEnter_le (s : Sys) (t h k) : SysLe t s (armSdEnter s t h k) := by
  unfold armSdEnter; split
  · upd (sdBody_le _ _ _ _)
  · exact setPc_le _ _ _
theorem armSdPrepared_le (s : Sys) (t o k) : SysLe t s (armSdPrepared s t o k) := by
  unfold armSdPrepared; split
  · peel (setPc_le _ _ _)
    apply foldl_le
    intro s i
    exact SysLe.congr_left (spawn_le _ _ (by intro i h; cases h)) (by same)
  · exact sdSeqNext_le _ _ _ _

theorem armStopperBegin_le (s : Sys) (t i) : SysLe t s (armStopperBegin s t i) := by
  unfold armStopperBegin
  simp only
  peel (setPc_le _ _ _)
  apply foldl_le
  intro s j
  exact SysLe.congr_left (spawn_le _ _ (by intro i h; cases h)) (by same)

theorem stepStopper_le (s : Sys) (t i pc) : SysLe t s (stepStopper s t i pc) := by
  cases pc <;> simp only [stepStopper] <;>
    first | exact SysLe.refl _ | exact armStopperBegin_le _ _ _ | exact gotoStop_le _ _ _ _ _
          | (peel (setPc_le _ _ _); done_le)
theorem stepWaiter_le (s : Sys) (t i pc) : SysLe t s (stepWaiter s t i pc) := by
  cases pc <;> simp only [stepWaiter] <;>
    first | exact SysLe.refl _ | exact setPc_le _ _ _ | (peel (setPc_le _ _ _); done_le)
theorem stepDepwaiter_le (s : Sys) (t o i pc) : SysLe t s (stepDepwaiter s t o i pc) := by
  cases pc <;> simp only [stepDepwaiter] <;>
    first | exact SysLe.refl _ | exact setPc_le _ _ _ | (peel (setPc_le _ _ _); done_le)

theorem armApiBegin_le (s : Sys) (t h op) : SysLe t s (armApiBegin s t h op) := by
  unfold armApiBegin
  cases op <;> simp only <;> first
    | exact setPc_le _ _ _
    | (split
       · exact apiFirst_le _ _ _ _
       · exact setPc_le _ _ _)
theorem armSpawnOrLock_le (s : Sys) (t n) : SysLe t s (armSpawnOrLock s t n) := by
  unfold armSpawnOrLock; split
  · split
    · exact apiSpawn_le _ _ _
    · exact setPc_le _ _ _
  · exact apiRet_le _ _ _
theorem stepApi_le (s : Sys) (t h op pc) : SysLe t s (stepApi s t h op pc) := by
  cases pc <;> simp only [stepApi] <;>
    first | exact SysLe.refl _ | exact setPc_le _ _ _ | exact armApiBegin_le _ _ _ _ | exact apiFirst_le _ _ _ _
          | exact armSpawnOrLock_le _ _ _ | exact apiSpawn_le _ _ _
          | exact (emit_le _ _).then (setPc_le _ _ _)
theorem armProbeBegin_le (s : Sys) (t n) : SysLe t s (armProbeBegin s t n) := by
  unfold armProbeBegin; split
  · exact setPc_le _ _ _
  · split
    · exact setPc_le _ _ _
    · exact (setPs_le _ _ _).then (gotoStop_le _ _ _ _ _)

/-- **Every thread step moves the system forward** (see `SysLe`). -/
theorem stepThread_le (s : Sys) (t : Tid) (h : Hints) : SysLe t s (stepThread s t h) := by
  unfold stepThread
  simp only
  split
  · exact armStopEnter_le _ _ _ _ _
  · exact armStopNotRunning_le _ _ _ _
  · exact armStopChecked_le _ _ _ _ _
  · exact armStopMarked_le _ _ _ _ _
  · exact armStopWaitKill_le _ _ _ _
  · exact armSdEnter_le _ _ _ _
  · upd (sdBody_le _ _ _ _)
  · exact armSdPrepared_le _ _ _ _
  · exact sdReturn_le _ _ _
  · split
    · exact stepProc_le _ _ _ _ _
    · exact stepApi_le _ _ _ _ _
    · exact stepStopper_le _ _ _ _
    · exact stepWaiter_le _ _ _ _
    · exact stepDepwaiter_le _ _ _ _ _
    · split
      · exact armProbeBegin_le _ _ _
      · exact SysLe.refl _
    · split
      · exact (setInst_le _ _ _ (by inst_le)).then (setPc_le _ _ _)
      · exact SysLe.refl _

theorem runThread_le (s : Sys) (t : Tid) (h : Hints) (fuel : Nat) : SysLe t s (runThread s t h fuel) := by
  induction fuel generalizing s with
  | zero => exact SysLe.refl _
  | succ n ih =>
    unfold runThread
    simp only
    split
    · exact stepThread_le _ _ _
    · split
      · exact stepThread_le _ _ _
      · exact (stepThread_le _ _ _).then (ih _)

/-- the thread whose frame is exempted by a choice: the thread that runs, or none (out of range) -/
def Choice.tid (s : Sys) : Choice → Tid
  | .run t => t
  | _ => s.threads.length

/-- **Every step of the system (thread step or external event) moves it forward.** -/
theorem step_le (s : Sys) (c : Choice) (h : Hints) : SysLe (c.tid s) s (step s c h) := by
  unfold step
  simp only
  cases c with
  | run t =>
    simp only [Choice.tid]
    split
    · upd (runThread_le _ _ _ _)
    · done_le
  | exit n code =>
    simp only
    split
    · upd (cmdExit_le _ _ _)
    · done_le
  | line n ready =>
    simp only
    split
    · split
      · peel (emit_le _ _)
        refine SysLe.trans ?_ (setInst_le _ _ _ ?_)
        · upd (setPs_le _ _ _)
        intro x
        refine ⟨rfl, rfl, id, id, id, id, ?_, ?_⟩
        · intro hx; simp [hx]
        · intro h1 h2; simp_all
      · done_le
    · done_le
  | probe n ok =>
    simp only
    split
    · split
      · done_le
      · split
        · peel (setInst_le _ _ _ (by inst_le))
          upd (setPs_le _ _ _)
        · upd (setPs_le _ _ _)
    · done_le
  | probeFatal id n =>
    simp only
    split
    · upd (spawn_le _ _ (by intro i h; cases h))
    · done_le
  | killTimeout n =>
    simp only
    split
    · upd (setInst_le _ _ _ (by inst_le))
    · done_le
  | call id op => upd (spawn_le _ _ (by intro i h; cases h))

end PC.Sup
