import PC.Proofs.SupDw
/-! `SdLe`: every thread step, except the last arm of a `stopper` / `waiter`, pays for each
    `stopper` / `waiter` thread it creates with one increment of the shutdown wait group and never
    decrements it. The per-arm lemmas follow the structure of the `SysLe` lemmas in `SupInsts`. -/
namespace PC.Sup

def Kind.isSd : Kind → Bool
  | .stopper _ => true
  | .waiter _ => true
  | _ => false

/-- number of `stopper` / `waiter` threads ever created -/
def sdTot (s : Sys) : Nat := s.threads.countP fun th => th.kind.isSd

structure SdLe (s s' : Sys) : Prop where
  tlen : s.threads.length ≤ s'.threads.length
  kinds : ∀ u, u < s.threads.length → (s'.thr u).kind = (s.thr u).kind
  pay : sdTot s' + s.sdWg ≤ s'.sdWg + sdTot s

theorem SdLe.refl (s : Sys) : SdLe s s := ⟨Nat.le_refl _, fun _ _ => rfl, Nat.le_of_eq (Nat.add_comm _ _)⟩

theorem SdLe.trans {a b c : Sys} (h1 : SdLe a b) (h2 : SdLe b c) : SdLe a c where
  tlen := Nat.le_trans h1.tlen h2.tlen
  kinds := fun u hu => (h2.kinds u (Nat.lt_of_lt_of_le hu h1.tlen)).trans (h1.kinds u hu)
  pay := by have := h1.pay; have := h2.pay; omega

structure SSame (s s' : Sys) : Prop where
  sdWg : s'.sdWg = s.sdWg
  threads : s'.threads = s.threads

theorem SdLe.of_same {s s' : Sys} (h : SSame s s') : SdLe s s' := by
  refine ⟨by rw [h.threads]; exact Nat.le_refl _, fun u _ => ?_, ?_⟩
  · unfold Sys.thr; rw [h.threads]
  · unfold sdTot; rw [h.threads, h.sdWg]; exact Nat.le_of_eq (Nat.add_comm _ _)

macro "ssame" : tactic => `(tactic| exact ⟨rfl, rfl⟩)

theorem setInst_s (s : Sys) (i : IId) (f : Inst → Inst) (_hf : ∀ x, Inst.Le x (f x)) : SdLe s (s.setInst i f) :=
  SdLe.of_same (by ssame)
theorem setPs_s (s : Sys) (n f) : SdLe s (s.setPs n f) := SdLe.of_same (by ssame)
theorem emit_s (s : Sys) (o) : SdLe s (s.emit o) := SdLe.of_same (by ssame)
theorem note_s (s : Sys) (e : GateEv) (_he : ∀ i d c, e ≠ .passed i d c) : SdLe s (s.note e) := SdLe.of_same (by ssame)
theorem notePassed_s (s : Sys) (i d : IId) (c : Cond) : SdLe s (s.notePassed i d c) := by
  unfold Sys.notePassed; split
  · exact SdLe.of_same (by ssame)
  · exact SdLe.refl _

theorem sdTot_setPc (s : Sys) (t pc) : sdTot (s.setPc t pc) = sdTot s := by
  unfold sdTot Sys.setPc
  exact countP_modify_same _ _ _ _ (fun _ _ => rfl)

theorem setPc_s (s : Sys) (t pc) : SdLe s (s.setPc t pc) := by
  refine ⟨by simp [Sys.setPc], fun u _ => kind_setPc s t u pc, ?_⟩
  rw [sdTot_setPc]; exact Nat.le_of_eq (Nat.add_comm _ _)

theorem kinds_spawn (s : Sys) (k : Kind) (u : Tid) (hu : u < s.threads.length) : ((s.spawn k).thr u).kind = (s.thr u).kind := by
  rw [spawn_thr_lt s k u hu]

theorem sdTot_spawn (s : Sys) (k : Kind) : sdTot (s.spawn k) = sdTot s + (if k.isSd then 1 else 0) := by
  unfold sdTot Sys.spawn
  simp [List.countP_append, List.countP_cons]

theorem spawn_s (s : Sys) (k : Kind) (hk : k.isSd = false) : SdLe s (s.spawn k) := by
  refine ⟨by simp [Sys.spawn], fun u hu => kinds_spawn s k u hu, ?_⟩
  rw [sdTot_spawn, hk]; simp; exact Nat.le_of_eq (Nat.add_comm _ _)

/-- a thread created together with one increment of the shutdown wait group -/
theorem spawnPaid_s (s : Sys) (k : Kind) : SdLe s (({ s with sdWg := s.sdWg + 1 } : Sys).spawn k) := by
  refine ⟨by simp [Sys.spawn], fun u hu => kinds_spawn _ k u hu, ?_⟩
  rw [sdTot_spawn]
  have e : sdTot ({ s with sdWg := s.sdWg + 1 } : Sys) = sdTot s := rfl
  have e2 : (({ s with sdWg := s.sdWg + 1 } : Sys).spawn k).sdWg = s.sdWg + 1 := rfl
  rw [e, e2]
  split <;> omega

theorem SdLe.then {a b c : Sys} (h1 : SdLe a b) (h2 : SdLe b c) : SdLe a c := h1.trans h2
theorem SdLe.congr_left {s0 s s' : Sys} (h : SdLe s s') (e : SSame s0 s) : SdLe s0 s' := (SdLe.of_same e).trans h
theorem SdLe.congr {s s' s'' : Sys} (h : SdLe s s') (e : SSame s' s'') : SdLe s s'' := h.trans (SdLe.of_same e)

macro "speel " t:term : tactic => `(tactic| refine SdLe.trans ?_ $t)
macro "supd " t:term : tactic => `(tactic| exact SdLe.congr_left $t (by ssame))
macro "done_s" : tactic => `(tactic| first | exact SdLe.refl _ | exact SdLe.of_same (by ssame))

/-! ### helpers -/

theorem setState_s (s : Sys) (i st) : SdLe s (setState s i st) := by
  unfold setState
  simp only
  cases st <;> simp only <;>
    first
    | exact (setPs_s _ _ _).then (emit_s _ _)
    | exact ((setPs_s _ _ _).then (emit_s _ _)).then (setPs_s _ _ _)
    | exact (((setPs_s _ _ _).then (emit_s _ _)).then (setPs_s _ _ _)).then (emit_s _ _)

theorem setExit_s (s : Sys) (n c) : SdLe s (setExit s n c) := by
  unfold setExit; exact (setPs_s _ _ _).then (emit_s _ _)

theorem recordExit_s (s : Sys) (c) : SdLe s (recordExit s c) := by
  unfold recordExit
  split
  · exact SdLe.refl _
  · speel (emit_s _ _)
    exact SdLe.of_same (by ssame)

theorem onProcessEnd_s (s : Sys) (i st) : SdLe s (onProcessEnd s i st) := by
  unfold onProcessEnd
  exact ((setInst_s s i endInst endInst_le).then (setState_s _ _ _)).then (emit_s _ _)

theorem cmdExit_s (s : Sys) (i c) : SdLe s (cmdExit s i c) := setInst_s _ _ _ (by inst_le)

theorem cmdStop_s (s : Sys) (i sig) : SdLe s (cmdStop s i sig) := by
  unfold cmdStop
  simp only
  split
  · split
    · exact (emit_s _ _).then (cmdExit_s _ _ _)
    · split
      · exact (emit_s _ _).then (cmdExit_s _ _ _)
      · exact emit_s _ _
  · exact emit_s _ _

theorem decideRestart_s (s : Sys) (i) : SdLe s (decideRestart s i).2 := setInst_s _ _ _ (by inst_le)

theorem append_s (s : Sys) (x : Inst) (_hx : EndedI x) : SdLe s { s with insts := s.insts ++ [x] } :=
  SdLe.of_same (by ssame)

theorem spawnProc_s (s : Sys) (n) : SdLe s (spawnProc s n) := by
  unfold spawnProc newInst
  simp only
  speel (spawn_s _ _ rfl)
  have h1 : SdLe s ({ s with insts := s.insts ++ [{ name := n, seq := (s.insts.filter (·.name = n)).length + 1 }] } : Sys) :=
    append_s s _ (by intro h; simp at h)
  exact (h1.then (setState_s _ _ _)).congr (by ssame)

theorem gotoCleanup_s (s : Sys) (t) : SdLe s (gotoCleanup s t) := by
  unfold gotoCleanup; speel (setPc_s _ _ _); done_s

theorem gotoStop_s (s : Sys) (t i cr k) : SdLe s (gotoStop s t i cr k) := by
  unfold gotoStop
  exact (setInst_s _ _ _ (by inst_le)).then (setPc_s _ _ _)

theorem apiRet_s (s : Sys) (t r) : SdLe s (apiRet s t r) := by
  unfold apiRet; split
  · exact (emit_s _ _).then (setPc_s _ _ _)
  all_goals exact setPc_s _ _ _

theorem apiSpawn_s (s : Sys) (t n) : SdLe s (apiSpawn s t n) := by
  unfold apiSpawn
  simp only
  split
  · speel (setPc_s _ _ _); speel (emit_s _ _); exact spawnProc_s _ _
  all_goals (speel (setPc_s _ _ _); exact spawnProc_s _ _)

theorem addDone_s (s : Sys) (i : IId) : SdLe s (addDone s i) := by
  unfold addDone; done_s
theorem doSkip_s (s : Sys) (t i) : SdLe s (doSkip s t i) := by
  unfold doSkip; exact (addDone_s _ _).then ((onProcessEnd_s _ _ _).then (setPc_s _ _ _))

theorem afterDeps_s (s : Sys) (t) : SdLe s (afterDeps s t) := setPc_s _ _ _

theorem lookupRunning_s (s : Sys) (t i k c r) : SdLe s (lookupRunning s t i k c r) := by
  unfold lookupRunning; split
  · exact ((note_s _ _ (by intro _ _ _ h; cases h)).then (emit_s _ _)).then (setPc_s _ _ _)
  · exact ((note_s _ _ (by intro _ _ _ h; cases h)).then (emit_s _ _)).then (setPc_s _ _ _)

theorem depStep_s (s : Sys) (t i h r) : SdLe s (depStep s t i h r) := by
  unfold depStep
  split
  · exact afterDeps_s _ _
  · simp only
    split
    · exact (((emit_s _ _).then (note_s _ _ (by intro _ _ _ h; cases h))).then (emit_s _ _)).then (setPc_s _ _ _)
    · split
      · exact (emit_s _ _).then (lookupRunning_s _ _ _ _ _ _)
      · exact (emit_s _ _).then (setPc_s _ _ _)

theorem doLaunch_s (s : Sys) (t i) : SdLe s (doLaunch s t i) := by
  unfold doLaunch
  simp only
  split
  · speel (setPc_s _ _ _)
    speel (onProcessEnd_s _ _ _)
    speel (setExit_s _ _ _)
    speel (emit_s _ _)
    exact setState_s _ _ _
  · speel (setPc_s _ _ _)
    have key : SdLe s
        (({ (setState s i .running).emit (.launch ((setState s i .running).nameOf i)) with
            launchClock := ((setState s i .running).emit (.launch ((setState s i .running).nameOf i))).launchClock + 1 } : Sys).setInst i
          fun x => { x with cmd := .alive, launches := x.launches + 1,
                            launchedAt := ((setState s i .running).emit (.launch ((setState s i .running).nameOf i))).launchClock + 1 }) := by
      speel (setInst_s _ _ _ (by inst_le))
      have hE : SdLe s ((setState s i .running).emit (.launch ((setState s i .running).nameOf i))) :=
        (setState_s s i .running).then (emit_s _ _)
      exact hE.congr (by ssame)
    split
    · exact key.trans (spawn_s _ _ rfl)
    · exact key

theorem foldl_s {α : Type} (f : Sys → α → Sys) (hf : ∀ s a, SdLe s (f s a)) (l : List α) (s : Sys) :
    SdLe s (l.foldl f s) := by
  induction l generalizing s with
  | nil => exact SdLe.refl _
  | cons a l ih => exact (hf s a).then (ih _)

theorem sdBody_s (s : Sys) (t h k) : SdLe s (sdBody s t h k) := by
  unfold sdBody
  simp only
  speel (setPc_s _ _ _)
  supd (foldl_s _ (fun s i => setInst_s _ _ _ (by inst_le)) _ _)

theorem sdSeqNext_s (s : Sys) (t r k) : SdLe s (sdSeqNext s t r k) := by
  unfold sdSeqNext; split
  · exact setPc_s _ _ _
  · exact gotoStop_s _ _ _ _ _

theorem sdReturn_s (s : Sys) (t k) : SdLe s (sdReturn s t k) := by
  unfold sdReturn
  simp only
  split
  · split
    · speel (setPc_s _ _ _); speel (emit_s _ _); speel (emit_s _ _); done_s
    all_goals (speel (setPc_s _ _ _); speel (emit_s _ _); done_s)
  · speel (gotoCleanup_s _ _); speel (emit_s _ _); done_s
  · speel (gotoCleanup_s _ _); speel (emit_s _ _); done_s

theorem stopReturn_s (s : Sys) (t k) : SdLe s (stopReturn s t k) := by
  unfold stopReturn
  split
  · split
    · exact (emit_s _ _).then (setPc_s _ _ _)
    all_goals exact setPc_s _ _ _
  · exact setPc_s _ _ _
  · speel (sdSeqNext_s _ _ _ _)
    exact spawnPaid_s _ _
  · exact setPc_s _ _ _
  · exact setPc_s _ _ _

theorem apiFirst_s (s : Sys) (t h op) : SdLe s (apiFirst s t h op) := by
  unfold apiFirst
  cases op with
  | start n => simp only; split <;> first | exact apiRet_s _ _ _ | exact setPc_s _ _ _
  | stop n =>
    simp only; split
    · exact (setInst_s _ _ _ (by inst_le)).then (gotoStop_s _ _ _ _ _)
    · split <;> exact apiRet_s _ _ _
  | restart n =>
    simp only; split
    · exact (setInst_s _ _ _ (by inst_le)).then (gotoStop_s _ _ _ _ _)
    · split
      · exact setPc_s _ _ _
      · exact apiRet_s _ _ _
  | state n => simp only; split <;> exact apiRet_s _ _ _
  | shutdown => exact setPc_s _ _ _
  | runMain =>
    simp only
    speel (setPc_s _ _ _)
    supd (foldl_s _ spawnProc_s _ _)

/-! ### the arms -/

theorem armDepLookup_s (s : Sys) (t d c r) : SdLe s (armDepLookup s t d c r) := by
  unfold armDepLookup; cases c <;> exact setPc_s _ _ _
theorem armWaitDone_s (s : Sys) (t i d ok r) : SdLe s (armWaitDone s t i d ok r) := by
  unfold armWaitDone; split
  · exact doSkip_s _ _ _
  · exact (notePassed_s _ _ _ _).then (setPc_s _ _ _)
theorem armWaitReady_s (s : Sys) (t i d r) : SdLe s (armWaitReady s t i d r) := by
  unfold armWaitReady; split
  · exact (notePassed_s _ _ _ _).then (setPc_s _ _ _)
  · exact doSkip_s _ _ _
theorem armWaitLogReady_s (s : Sys) (t i d r) : SdLe s (armWaitLogReady s t i d r) := by
  unfold armWaitLogReady; split
  · exact (notePassed_s _ _ _ _).then (setPc_s _ _ _)
  · exact doSkip_s _ _ _
theorem armProcSkipped_s (s : Sys) (t i) : SdLe s (armProcSkipped s t i) := by
  unfold armProcSkipped; split
  · exact (recordExit_s _ _).then (setPc_s _ _ _)
  · exact gotoCleanup_s _ _
theorem armRunEnter_s (s : Sys) (t i) : SdLe s (armRunEnter s t i) := by
  unfold armRunEnter; split
  · exact (onProcessEnd_s _ _ _).then (setPc_s _ _ _)
  · exact setPc_s _ _ _
theorem armRunChecked_s (s : Sys) (t i) : SdLe s (armRunChecked s t i) := by
  unfold armRunChecked; split
  · exact ((setExit_s _ _ _).then (onProcessEnd_s _ _ _)).then (setPc_s _ _ _)
  · exact ((setInst_s _ _ _ (by inst_le)).then (emit_s _ _)).then (doLaunch_s _ _ _)
theorem armCmdWait_s (s : Sys) (t i) : SdLe s (armCmdWait s t i) := by
  unfold armCmdWait; split
  · exact (setExit_s _ _ _).then (setPc_s _ _ _)
  · exact SdLe.refl _
theorem armRunExited_s (s : Sys) (t i) : SdLe s (armRunExited s t i) := by
  unfold armRunExited
  simp only
  refine (decideRestart_s s i).then ?_
  split
  · exact (((setState_s _ _ _).then (setPs_s _ _ _)).then (emit_s _ _)).then (setPc_s _ _ _)
  · exact (onProcessEnd_s _ _ _).then (setPc_s _ _ _)
theorem armBackoff_s (s : Sys) (t i) : SdLe s (armBackoff s t i) := by
  unfold armBackoff; split
  · exact (onProcessEnd_s _ _ _).then (setPc_s _ _ _)
  · exact setPc_s _ _ _
theorem armProcRan_s (s : Sys) (t i c) : SdLe s (armProcRan s t i c) := by
  unfold armProcRan; speel (setPc_s _ _ _); done_s
theorem armProcDoneAdded_s (s : Sys) (t i c) : SdLe s (armProcDoneAdded s t i c) := by
  unfold armProcDoneAdded; simp only; split
  · exact (recordExit_s _ _).then (setPc_s _ _ _)
  · exact gotoCleanup_s _ _
theorem armLockCleanup_s (s : Sys) (t i) : SdLe s (armLockCleanup s t i) := by
  unfold armLockCleanup; split
  · speel (setPc_s _ _ _); done_s
  · exact setPc_s _ _ _

theorem stepProc_s (s : Sys) (t i h pc) : SdLe s (stepProc s t i h pc) := by
  cases pc <;> simp only [stepProc] <;>
    first
    | exact SdLe.refl _
    | exact setPc_s _ _ _
    | exact (notePassed_s _ _ _ _).then (setPc_s _ _ _)
    | exact depStep_s _ _ _ _ _
    | exact lookupRunning_s _ _ _ _ _ _
    | exact armDepLookup_s _ _ _ _ _
    | exact armWaitDone_s _ _ _ _ _ _
    | exact armWaitReady_s _ _ _ _ _
    | exact armWaitLogReady_s _ _ _ _ _
    | exact armProcSkipped_s _ _ _
    | exact armRunEnter_s _ _ _
    | exact armRunChecked_s _ _ _
    | exact armCmdWait_s _ _ _
    | exact armRunExited_s _ _ _
    | exact armBackoff_s _ _ _
    | exact doLaunch_s _ _ _
    | exact armProcRan_s _ _ _ _
    | exact armProcDoneAdded_s _ _ _ _
    | exact armLockCleanup_s _ _ _

theorem armStopEnter_s (s : Sys) (t i cr k) : SdLe s (armStopEnter s t i cr k) := by
  unfold armStopEnter; split <;> exact setPc_s _ _ _
theorem armStopNotRunning_s (s : Sys) (t i k) : SdLe s (armStopNotRunning s t i k) := by
  unfold armStopNotRunning; simp only; split
  · exact (onProcessEnd_s _ _ _).then (stopReturn_s _ _ _)
  · exact stopReturn_s _ _ _
theorem armStopChecked_s (s : Sys) (t i cr k) : SdLe s (armStopChecked s t i cr k) := by
  unfold armStopChecked; exact (setState_s _ _ _).then (setPc_s _ _ _)

theorem stopMarkedPrep_s (s : Sys) (i cr) : SdLe s (stopMarkedPrep s i cr) := by
  unfold stopMarkedPrep
  apply setInst_s
  intro x
  refine ⟨rfl, rfl, id, id, ?_, id, ?_, ?_⟩
  · intro h; simp [h]
  · intro h; simp [h]
  · intro h1 h2; simp_all

theorem armStopMarked_s (s : Sys) (t i cr k) : SdLe s (armStopMarked s t i cr k) := by
  unfold armStopMarked
  simp only
  split
  · speel (stopReturn_s _ _ _)
    exact stopMarkedPrep_s _ _ _
  · split
    · speel (setPc_s _ _ _)
      speel (setInst_s _ _ _ (by inst_le))
      speel (cmdStop_s _ _ _)
      exact stopMarkedPrep_s _ _ _
    · speel (stopReturn_s _ _ _)
      speel (cmdStop_s _ _ _)
      exact stopMarkedPrep_s _ _ _
theorem armStopWaitKill_s (s : Sys) (t i k) : SdLe s (armStopWaitKill s t i k) := by
  unfold armStopWaitKill; split
  · exact (cmdStop_s _ _ _).then (stopReturn_s _ _ _)
  · exact stopReturn_s _ _ _

theorem armSdEnter_s (s : Sys) (t h k) : SdLe s (armSdEnter s t h k) := by
  unfold armSdEnter; split
  · supd (sdBody_s _ _ _ _)
  · exact setPc_s _ _ _
theorem armSdPrepared_s (s : Sys) (t o k) : SdLe s (armSdPrepared s t o k) := by
  unfold armSdPrepared; split
  · speel (setPc_s _ _ _)
    apply foldl_s
    intro s i
    exact spawnPaid_s _ _
  · exact sdSeqNext_s _ _ _ _

theorem armStopperBegin_s (s : Sys) (t i) : SdLe s (armStopperBegin s t i) := by
  unfold armStopperBegin
  simp only
  speel (setPc_s _ _ _)
  apply foldl_s
  intro s j
  exact SdLe.congr_left (spawn_s _ _ rfl) (by ssame)

theorem stepStopper_s (s : Sys) (t i pc) (hpc : ∀ j, pc ≠ .waitDoneThen j) : SdLe s (stepStopper s t i pc) := by
  cases pc <;> simp only [stepStopper] <;>
    first | exact absurd rfl (hpc _) | exact SdLe.refl _ | exact armStopperBegin_s _ _ _ | exact gotoStop_s _ _ _ _ _
theorem stepWaiter_s (s : Sys) (t i pc) (hpc : ∀ j, pc ≠ .waitDoneThen j) : SdLe s (stepWaiter s t i pc) := by
  cases pc <;> simp only [stepWaiter] <;>
    first | exact absurd rfl (hpc _) | exact SdLe.refl _ | exact setPc_s _ _ _
theorem stepDepwaiter_s (s : Sys) (t o i pc) : SdLe s (stepDepwaiter s t o i pc) := by
  cases pc <;> simp only [stepDepwaiter] <;>
    first | exact SdLe.refl _ | exact setPc_s _ _ _ | (speel (setPc_s _ _ _); done_s)

theorem armApiBegin_s (s : Sys) (t h op) : SdLe s (armApiBegin s t h op) := by
  unfold armApiBegin
  cases op <;> simp only <;> first
    | exact setPc_s _ _ _
    | (split
       · exact apiFirst_s _ _ _ _
       · exact setPc_s _ _ _)
theorem armSpawnOrLock_s (s : Sys) (t n) : SdLe s (armSpawnOrLock s t n) := by
  unfold armSpawnOrLock; split
  · split
    · exact apiSpawn_s _ _ _
    · exact setPc_s _ _ _
  · exact apiRet_s _ _ _
theorem stepApi_s (s : Sys) (t h op pc) : SdLe s (stepApi s t h op pc) := by
  cases pc <;> simp only [stepApi] <;>
    first | exact SdLe.refl _ | exact setPc_s _ _ _ | exact armApiBegin_s _ _ _ _ | exact apiFirst_s _ _ _ _
          | exact armSpawnOrLock_s _ _ _ | exact apiSpawn_s _ _ _
          | exact (emit_s _ _).then (setPc_s _ _ _)
theorem armProbeBegin_s (s : Sys) (t n) : SdLe s (armProbeBegin s t n) := by
  unfold armProbeBegin; split
  · exact setPc_s _ _ _
  · split
    · exact setPc_s _ _ _
    · exact (setPs_s _ _ _).then (gotoStop_s _ _ _ _ _)

/-- the last arm of a `stopper` / `waiter`: it takes one off the shutdown wait group and finishes -/
def SpecialSd (s : Sys) (t : Tid) : Prop :=
  (s.thr t).kind.isSd = true ∧ ∃ j, (s.thr t).pc = .waitDoneThen j

theorem stepThread_s (s : Sys) (t : Tid) (h : Hints) (hns : ¬ SpecialSd s t) : SdLe s (stepThread s t h) := by
  unfold stepThread
  simp only
  split
  · exact armStopEnter_s _ _ _ _ _
  · exact armStopNotRunning_s _ _ _ _
  · exact armStopChecked_s _ _ _ _ _
  · exact armStopMarked_s _ _ _ _ _
  · exact armStopWaitKill_s _ _ _ _
  · exact armSdEnter_s _ _ _ _
  · supd (sdBody_s _ _ _ _)
  · exact armSdPrepared_s _ _ _ _
  · exact sdReturn_s _ _ _
  · split
    · exact stepProc_s _ _ _ _ _
    · exact stepApi_s _ _ _ _ _
    · rename_i hk
      exact stepStopper_s _ _ _ _ (fun j hp => hns ⟨by rw [hk]; rfl, j, hp⟩)
    · rename_i hk
      exact stepWaiter_s _ _ _ _ (fun j hp => hns ⟨by rw [hk]; rfl, j, hp⟩)
    · exact stepDepwaiter_s _ _ _ _ _
    · split
      · exact armProbeBegin_s _ _ _
      · exact SdLe.refl _
    · split
      · exact (setInst_s _ _ _ (by inst_le)).then (setPc_s _ _ _)
      · exact SdLe.refl _

end PC.Sup
