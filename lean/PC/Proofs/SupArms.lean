import PC.Proofs.SupReach
/-! Reading results back out of the thread programs (program counter, instance record, state). -/
namespace PC.Sup

theorem thr_setPc_self (s : Sys) (t : Tid) (pc : Pc) (h : t < s.threads.length) :
    ((s.setPc t pc).thr t).pc = pc := by
  unfold Sys.thr Sys.setPc
  simp [List.getD_eq_getElem?_getD, List.getElem?_modify, h]

@[simp] theorem note_threads (s : Sys) (e) : (s.note e).threads = s.threads := rfl
@[simp] theorem note_ps (s : Sys) (e n) : (s.note e).ps n = s.ps n := rfl
@[simp] theorem note_inst (s : Sys) (e i) : (s.note e).inst i = s.inst i := rfl
@[simp] theorem note_nameOf (s : Sys) (e i) : (s.note e).nameOf i = s.nameOf i := rfl
@[simp] theorem note_thr (s : Sys) (e t) : (s.note e).thr t = s.thr t := rfl

theorem thr_setPc_note_self (s : Sys) (e : GateEv) (t : Tid) (pc : Pc) (h : t < s.threads.length) :
    (((s.note e).setPc t pc).thr t).pc = pc := thr_setPc_self (s.note e) t pc h

@[simp] theorem notePassed_threads (s : Sys) (i d c) : (s.notePassed i d c).threads = s.threads := by
  unfold Sys.notePassed; split <;> rfl
@[simp] theorem notePassed_ps (s : Sys) (i d c n) : (s.notePassed i d c).ps n = s.ps n := by
  unfold Sys.notePassed; split <;> rfl
@[simp] theorem notePassed_inst (s : Sys) (i d c j) : (s.notePassed i d c).inst j = s.inst j := by
  unfold Sys.notePassed; split <;> rfl
@[simp] theorem notePassed_thr (s : Sys) (i d c t) : (s.notePassed i d c).thr t = s.thr t := by
  unfold Sys.notePassed; split <;> rfl

theorem thr_setPc_notePassed_self (s : Sys) (i d : IId) (c : Cond) (t : Tid) (pc : Pc) (h : t < s.threads.length) :
    (((s.notePassed i d c).setPc t pc).thr t).pc = pc :=
  thr_setPc_self _ t pc (by simpa using h)

@[simp] theorem setPc_ps (s : Sys) (t pc n) : (s.setPc t pc).ps n = s.ps n := rfl
@[simp] theorem setPc_inst (s : Sys) (t pc i) : (s.setPc t pc).inst i = s.inst i := rfl
@[simp] theorem emit_ps (s : Sys) (o n) : (s.emit o).ps n = s.ps n := rfl
@[simp] theorem emit_inst (s : Sys) (o i) : (s.emit o).inst i = s.inst i := rfl
@[simp] theorem emit_threads (s : Sys) (o) : (s.emit o).threads = s.threads := rfl
@[simp] theorem setPs_threads (s : Sys) (n f) : (s.setPs n f).threads = s.threads := rfl
@[simp] theorem setInst_threads (s : Sys) (i f) : (s.setInst i f).threads = s.threads := rfl
@[simp] theorem setPs_inst (s : Sys) (n f i) : (s.setPs n f).inst i = s.inst i := rfl
@[simp] theorem setInst_ps (s : Sys) (i f n) : (s.setInst i f).ps n = s.ps n := rfl
@[simp] theorem setPs_nameOf (s : Sys) (n f i) : (s.setPs n f).nameOf i = s.nameOf i := rfl
@[simp] theorem emit_nameOf (s : Sys) (o i) : (s.emit o).nameOf i = s.nameOf i := rfl

@[simp] theorem setInst_pstates (s : Sys) (i f) : (s.setInst i f).pstates = s.pstates := rfl
@[simp] theorem emit_pstates (s : Sys) (o) : (s.emit o).pstates = s.pstates := rfl
@[simp] theorem setPc_pstates (s : Sys) (t pc) : (s.setPc t pc).pstates = s.pstates := rfl
@[simp] theorem setPs_pstates_length (s : Sys) (n f) : (s.setPs n f).pstates.length = s.pstates.length := by
  simp [Sys.setPs]

theorem ps_setPs (s : Sys) (n m : Name) (f : PState → PState) (hm : m < s.pstates.length) :
    (s.setPs n f).ps m = if n = m then f (s.ps m) else s.ps m := by
  unfold Sys.ps Sys.setPs
  simp only [List.getD_eq_getElem?_getD, List.getElem?_modify]
  by_cases h : n = m
  · subst h; simp [hm]
  · simp [h]

theorem nameOf_setInst (s : Sys) (i j : IId) (f : Inst → Inst) (hf : ∀ x, (f x).name = x.name) :
    (s.setInst i f).nameOf j = s.nameOf j := by
  unfold Sys.nameOf
  by_cases hj : j < s.insts.length
  · rw [inst_setInst _ _ _ _ hj]; split <;> simp [hf]
  · have h1 := inst_default s j (Nat.le_of_not_lt hj)
    have h2 := inst_default (s.setInst i f) j (by simpa [Sys.setInst] using Nat.le_of_not_lt hj)
    rw [h1, h2]

end PC.Sup
