import PC.Model.Env
/-! Load-time expansion on configuration text built from segments (C17): literal text, `${NAME}`
    and `$$`. `loadText` — the three text rewrites of `loadProjectFromFile`, regenerated from the
    source — turns the rendering of the segments into their evaluation: every `${NAME}` is replaced by
    the value of `NAME`, every `$$` by a literal `$`, the literal text is untouched. For every list
    of segments, every environment. -/
namespace PC.Env
open PC.Go

inductive Seg
  | lit (s : List Char)
  | braced (x : List Char)
  | var (x : List Char)
  | dollar
deriving Repr, DecidableEq

/-- the three renderings the text goes through: as written (0), after `$$` became the placeholder (1),
    after the variables were replaced (2), and the final text (3) -/
def renderSeg (m : List Char → List Char) (k : Nat) : Seg → List Char
  | .lit s => s
  | .braced x => if k < 2 then '$' :: '{' :: (x ++ ['}']) else m x
  | .var x => if k < 2 then '$' :: x else m x
  | .dollar => if k = 0 then ['$', '$'] else if k < 3 then envEscaped else ['$']

def render (m : List Char → List Char) (k : Nat) (segs : List Seg) : List Char := segs.flatMap (renderSeg m k)

/-- well-formed segments: literal text without `$` and `#`; names made of identifier characters -/
def Seg.WF : Seg → Prop
  | .lit s => ∀ c ∈ s, c ≠ '$' ∧ c ≠ '#'
  | .braced x => x ≠ [] ∧ ∀ c ∈ x, isAlphaNum c = true
  | .var x => x ≠ [] ∧ (∀ c ∈ x, isAlphaNum c = true) ∧ ∀ c, x.head? = some c → isShellSpecialVar c = false
  | .dollar => True

/-- what may follow a bare `$NAME`: not literal text that would prolong the name -/
def okAfterVar : List Seg → Prop
  | .lit s :: _ => ∃ c t, s = c :: t ∧ isAlphaNum c = false
  | _ => True

/-- a well-formed text: well-formed segments, and no bare `$NAME` directly followed by an identifier character -/
def WFL : List Seg → Prop
  | [] => True
  | sg :: rest => sg.WF ∧ (∀ x, sg = .var x → okAfterVar rest) ∧ WFL rest

/-- executable form of the well-formedness conditions -/
def Seg.wfB : Seg → Bool
  | .lit s => s.all fun c => c != '$' && c != '#'
  | .braced x => !x.isEmpty && x.all isAlphaNum
  | .var x => !x.isEmpty && x.all isAlphaNum && (match x.head? with | some c => !isShellSpecialVar c | none => true)
  | .dollar => true

def okAfterVarB : List Seg → Bool
  | .lit s :: _ => match s with | c :: _ => !isAlphaNum c | [] => false
  | _ => true

def wflB : List Seg → Bool
  | [] => true
  | sg :: rest => sg.wfB && (match sg with | .var _ => okAfterVarB rest | _ => true) && wflB rest

theorem Seg.wfB_sound (sg : Seg) (h : sg.wfB = true) : sg.WF := by
  cases sg with
  | lit s =>
    intro c hc
    have := List.all_eq_true.mp h c hc
    simpa using this
  | braced x =>
    simp only [Seg.wfB, Bool.and_eq_true, Bool.not_eq_eq_eq_not, Bool.not_true, List.all_eq_true] at h
    exact ⟨by intro e; simp [e] at h, h.2⟩
  | var x =>
    simp only [Seg.wfB, Bool.and_eq_true, Bool.not_eq_eq_eq_not, Bool.not_true, List.all_eq_true] at h
    refine ⟨by intro e; simp [e] at h, h.1.2, ?_⟩
    intro c hc
    have h3 := h.2
    rw [hc] at h3
    simpa using h3
  | dollar => trivial

theorem okAfterVarB_sound (segs : List Seg) (h : okAfterVarB segs = true) : okAfterVar segs := by
  cases segs with
  | nil => trivial
  | cons sg rest =>
    cases sg with
    | lit s =>
      cases s with
      | nil => simp [okAfterVarB] at h
      | cons c t => exact ⟨c, t, rfl, by simpa [okAfterVarB] using h⟩
    | _ => trivial

theorem wflB_sound (segs : List Seg) (h : wflB segs = true) : WFL segs := by
  induction segs with
  | nil => trivial
  | cons sg rest ih =>
    simp only [wflB, Bool.and_eq_true] at h
    refine ⟨sg.wfB_sound h.1.1, ?_, ih h.2⟩
    intro x hx
    subst hx
    exact okAfterVarB_sound rest h.1.2

/-- values without `#` (so that no placeholder can appear in, or across, values) -/
def CleanEnv (m : List Char → List Char) : Prop := ∀ x, ∀ c ∈ m x, c ≠ '#'

/-! ### `strings.ReplaceAll`, enough fuel -/

theorem isPrefixOf_cons_ne (old : List Char) (o c : Char) (t : List Char) (h : c ≠ o) :
    (o :: old).isPrefixOf (c :: t) = false := by
  simp [List.isPrefixOf, h.symm]

/-- characters that cannot start a match are copied -/
theorem replaceAllF_copy (o : Char) (old new : List Char) (a rest : List Char) (fuel : Nat)
    (ha : ∀ c ∈ a, c ≠ o) (hf : (a ++ rest).length < fuel) :
    replaceAllF (o :: old) new fuel (a ++ rest) = a ++ replaceAllF (o :: old) new (fuel - a.length) rest := by
  induction a generalizing fuel with
  | nil => simp
  | cons c a ih =>
    cases fuel with
    | zero => simp at hf
    | succ f =>
      have hc : c ≠ o := ha c (by simp)
      simp only [List.cons_append, replaceAllF, isPrefixOf_cons_ne old o c (a ++ rest) hc, Bool.false_eq_true, ↓reduceIte]
      rw [ih f (fun x hx => ha x (by simp [hx])) (by simpa using hf)]
      simp

/-- a match is replaced and the scan goes on behind it -/
theorem replaceAllF_match (old new rest : List Char) (fuel : Nat) (hne : old ≠ []) :
    replaceAllF old new (fuel + 1) (old ++ rest) = new ++ replaceAllF old new fuel rest := by
  cases old with
  | nil => exact absurd rfl hne
  | cons o old =>
    simp only [List.cons_append, replaceAllF]
    have : (o :: old).isPrefixOf (o :: (old ++ rest)) = true := by
      simp [List.isPrefixOf]
    simp only [this, ↓reduceIte]
    congr 1
    simp

/-- more fuel than characters: the amount does not matter -/
theorem replaceAllF_fuel (old new : List Char) (f1 : Nat) : ∀ (s : List Char) (f2 : Nat), s.length < f1 → s.length < f2 →
    old ≠ [] → replaceAllF old new f1 s = replaceAllF old new f2 s := by
  induction f1 with
  | zero => intro s f2 h1; simp at h1
  | succ g1 ih =>
    intro s f2 h1 h2 hne
    cases f2 with
    | zero => simp at h2
    | succ g2 =>
      cases s with
      | nil => simp [replaceAllF]
      | cons c rest =>
        simp only [replaceAllF]
        split
        · congr 1
          have hl : ((c :: rest).drop old.length).length ≤ rest.length := by
            cases old with
            | nil => exact absurd rfl hne
            | cons o t => simp
          exact ih _ g2 (by simp at h1; omega) (by simp at h2; omega) hne
        · congr 1
          exact ih rest g2 (by simpa using h1) (by simpa using h2) hne


/-! ### character facts -/

theorem alnum_ne (c : Char) (h : isAlphaNum c = true) : c ≠ '$' ∧ c ≠ '}' ∧ c ≠ '#' ∧ c ≠ '{' := by
  refine ⟨?_, ?_, ?_, ?_⟩ <;> (intro e; subst e; revert h; decide)

theorem escaped_no_dollar : ∀ c ∈ envEscaped, c ≠ '$' := by decide

theorem escaped_cons : envEscaped = '#' :: envEscaped.tail := by decide

theorem render_cons (m : List Char → List Char) (k : Nat) (sg : Seg) (segs : List Seg) :
    render m k (sg :: segs) = renderSeg m k sg ++ render m k segs := by
  simp [render]

/-! ### pass 1: `$$` becomes the placeholder -/

theorem pass1 (m : List Char → List Char) (segs : List Seg) (hw : WFL segs) :
    ∀ fuel, (render m 0 segs).length < fuel →
      replaceAllF ['$', '$'] envEscaped fuel (render m 0 segs) = render m 1 segs := by
  induction segs with
  | nil => intro fuel hf; cases fuel with
    | zero => simp at hf
    | succ f => rfl
  | cons sg segs ih =>
    intro fuel hf
    obtain ⟨hsg, hnext, hrest⟩ := hw
    have ih' := ih hrest
    rw [render_cons, render_cons]
    rw [render_cons] at hf
    cases sg with
    | lit s =>
      have hs : ∀ c ∈ s, c ≠ '$' := fun c hc => (hsg c hc).1
      simp only [renderSeg]
      rw [replaceAllF_copy '$' ['$'] envEscaped s _ fuel hs hf]
      rw [ih' _ (by simp [renderSeg] at hf; omega)]
    | braced x =>
      obtain ⟨_, hx⟩ := hsg
      simp only [renderSeg, Nat.lt_irrefl, Nat.zero_lt_succ, ↓reduceIte, show (0 : Nat) < 2 by decide, show (1 : Nat) < 2 by decide]
      cases fuel with
      | zero => simp at hf
      | succ f =>
        simp only [List.cons_append, replaceAllF]
        have hnp : ['$', '$'].isPrefixOf ('$' :: '{' :: (x ++ ['}'] ++ render m 0 segs)) = false := by
          simp [List.isPrefixOf]
        simp only [hnp, Bool.false_eq_true, ↓reduceIte]
        congr 1
        have hcopy : ∀ c ∈ '{' :: (x ++ ['}']), c ≠ '$' := by
          intro c hc
          simp only [List.mem_cons, List.mem_append, List.mem_singleton, List.not_mem_nil, or_false] at hc
          rcases hc with rfl | hc | rfl
          · decide
          · exact (alnum_ne c (hx c hc)).1
          · decide
        have := replaceAllF_copy '$' ['$'] envEscaped ('{' :: (x ++ ['}'])) (render m 0 segs) f hcopy
          (by simp [renderSeg] at hf ⊢; omega)
        simp only [List.cons_append, List.append_assoc] at this ⊢
        rw [this, ih' _ (by simp [renderSeg] at hf ⊢; omega)]
    | var x =>
      obtain ⟨hne, hx, _⟩ := hsg
      simp only [renderSeg, show (0 : Nat) < 2 by decide, show (1 : Nat) < 2 by decide, ↓reduceIte]
      cases x with
      | nil => exact absurd rfl hne
      | cons c x =>
        cases fuel with
        | zero => simp at hf
        | succ f =>
          have hc : c ≠ '$' := (alnum_ne c (hx c (by simp))).1
          simp only [List.cons_append, replaceAllF]
          have hnp : ['$', '$'].isPrefixOf ('$' :: c :: (x ++ render m 0 segs)) = false := by
            simp [List.isPrefixOf, hc.symm]
          simp only [hnp, Bool.false_eq_true, ↓reduceIte]
          congr 1
          have hcopy : ∀ d ∈ c :: x, d ≠ '$' := fun d hd => (alnum_ne d (hx d hd)).1
          have := replaceAllF_copy '$' ['$'] envEscaped (c :: x) (render m 0 segs) f hcopy
            (by simp [renderSeg] at hf ⊢; omega)
          simp only [List.cons_append] at this ⊢
          rw [this, ih' _ (by simp [renderSeg] at hf ⊢; omega)]
    | dollar =>
      simp only [renderSeg, ↓reduceIte, show (1 : Nat) ≠ 0 by decide, show (1 : Nat) < 3 by decide]
      cases fuel with
      | zero => simp at hf
      | succ f =>
        rw [replaceAllF_match ['$', '$'] envEscaped _ f (by simp)]
        rw [ih' _ (by simp [renderSeg] at hf; omega)]


/-! ### pass 3: the placeholder becomes `$` -/

theorem pass3 (m : List Char → List Char) (hm : CleanEnv m) (segs : List Seg) (hw : WFL segs) :
    ∀ fuel, (render m 2 segs).length < fuel →
      replaceAllF envEscaped ['$'] fuel (render m 2 segs) = render m 3 segs := by
  induction segs with
  | nil => intro fuel hf; cases fuel with
    | zero => simp at hf
    | succ f => rfl
  | cons sg segs ih =>
    intro fuel hf
    obtain ⟨hsg, hnext, hrest⟩ := hw
    have ih' := ih hrest
    rw [render_cons, render_cons]
    rw [render_cons] at hf
    cases sg with
    | lit s =>
      have hs : ∀ c ∈ s, c ≠ '#' := fun c hc => (hsg c hc).2
      simp only [renderSeg]
      rw [escaped_cons, replaceAllF_copy '#' envEscaped.tail ['$'] s _ fuel hs hf, ← escaped_cons]
      rw [ih' _ (by simp [renderSeg] at hf; omega)]
    | braced x =>
      simp only [renderSeg, show ¬ ((2 : Nat) < 2) by decide, show ¬ ((3 : Nat) < 2) by decide, ↓reduceIte]
      simp only [renderSeg, show ¬ ((2 : Nat) < 2) by decide, ↓reduceIte] at hf
      rw [escaped_cons, replaceAllF_copy '#' envEscaped.tail ['$'] (m x) _ fuel (hm x) hf, ← escaped_cons]
      rw [ih' _ (by simp at hf; omega)]
    | var x =>
      simp only [renderSeg, show ¬ ((2 : Nat) < 2) by decide, show ¬ ((3 : Nat) < 2) by decide, ↓reduceIte]
      simp only [renderSeg, show ¬ ((2 : Nat) < 2) by decide, ↓reduceIte] at hf
      rw [escaped_cons, replaceAllF_copy '#' envEscaped.tail ['$'] (m x) _ fuel (hm x) hf, ← escaped_cons]
      rw [ih' _ (by simp at hf; omega)]
    | dollar =>
      simp only [renderSeg, show (2 : Nat) ≠ 0 by decide, show (3 : Nat) ≠ 0 by decide, show (2 : Nat) < 3 by decide,
        show ¬ ((3 : Nat) < 3) by decide, ↓reduceIte]
      simp only [renderSeg, show (2 : Nat) ≠ 0 by decide, show (2 : Nat) < 3 by decide, ↓reduceIte] at hf
      cases fuel with
      | zero => simp at hf
      | succ f =>
        have hl : envEscaped.length = 18 := by decide
        rw [replaceAllF_match envEscaped ['$'] _ f (by decide)]
        rw [ih' _ (by simp only [List.length_append, hl] at hf; omega)]

/-! ### pass 2: `os.Expand` -/

/-- characters other than `$` are copied -/
theorem expandF_copy (m : List Char → List Char) (a rest : List Char) (fuel : Nat)
    (ha : ∀ c ∈ a, c ≠ '$') (hf : (a ++ rest).length < fuel) :
    expandF m fuel (a ++ rest) = a ++ expandF m (fuel - a.length) rest := by
  induction a generalizing fuel with
  | nil => simp
  | cons c a ih =>
    cases fuel with
    | zero => simp at hf
    | succ f =>
      have hc : (c == '$') = false := by simpa using ha c (by simp)
      simp only [List.cons_append, expandF, hc, Bool.false_and, Bool.false_eq_true, ↓reduceIte]
      rw [ih f (fun x hx => ha x (by simp [hx])) (by simpa using hf)]
      simp

theorem findClose_at (x rest : List Char) (i : Nat) (hx : ∀ c ∈ x, c ≠ '}') :
    findClose (x ++ '}' :: rest) i = some (i + x.length) := by
  induction x generalizing i with
  | nil => simp [findClose]
  | cons c x ih =>
    have hc : (c == '}') = false := by simpa using hx c (by simp)
    simp only [List.cons_append, findClose, hc, Bool.false_eq_true, ↓reduceIte]
    rw [ih (i + 1) (fun y hy => hx y (by simp [hy]))]
    simp; omega

/-- `${NAME}`: the name is what stands between the braces -/
theorem getShellName_braced (x rest : List Char) (hne : x ≠ []) (hx : ∀ c ∈ x, isAlphaNum c = true) :
    getShellName ('{' :: (x ++ '}' :: rest)) = (x, x.length + 2) := by
  have hnb : ∀ c ∈ x, c ≠ '}' := fun c hc => (alnum_ne c (hx c hc)).2.1
  have hfc := findClose_at x rest 1 hnb
  cases x with
  | nil => exact absurd rfl hne
  | cons c x =>
    cases x with
    | nil =>
      -- `${c}`
      simp only [List.cons_append, List.nil_append, List.length_cons, List.length_nil] at hfc
      simp only [List.cons_append, List.nil_append, getShellName, hfc]
      split <;> simp
    | cons d x =>
      have hd : d ≠ '}' := hnb d (by simp)
      simp only [List.cons_append, getShellName]
      split
      · rename_i heq
        simp only [List.cons.injEq] at heq
        exact absurd heq.2.1 hd
      · simp only [List.cons_append, List.length_cons] at hfc
        simp only [hfc]
        have : (1 + (x.length + 1 + 1) == 1) = false := by simp
        simp only [this, Bool.false_eq_true, ↓reduceIte]
        refine Prod.ext ?_ ?_ <;> simp <;> try omega

theorem takeWhile_prefix (p : Char → Bool) (x r : List Char) (hx : ∀ c ∈ x, p c = true) (hr : r.takeWhile p = []) :
    (x ++ r).takeWhile p = x := by
  induction x with
  | nil => simpa using hr
  | cons c x ih => simp [List.takeWhile, hx c (by simp), ih (fun d hd => hx d (by simp [hd]))]

/-- bare `$NAME`: the name is the longest run of identifier characters -/
theorem getShellName_var (x r : List Char) (hne : x ≠ []) (hx : ∀ c ∈ x, isAlphaNum c = true)
    (hsp : ∀ c, x.head? = some c → isShellSpecialVar c = false) (hr : r.takeWhile isAlphaNum = []) :
    getShellName (x ++ r) = (x, x.length) := by
  cases x with
  | nil => exact absurd rfl hne
  | cons c x =>
    have hc := hsp c rfl
    have hb : c ≠ '{' := (alnum_ne c (hx c (by simp))).2.2.2
    have htw := takeWhile_prefix isAlphaNum (c :: x) r hx hr
    simp only [List.cons_append] at htw ⊢
    unfold getShellName
    split
    · rename_i heq; cases heq
    · rename_i heq; simp only [List.cons.injEq] at heq; exact absurd heq.1.symm hb.symm
    · rename_i c' t heq
      simp only [List.cons.injEq] at heq
      obtain ⟨rfl, rfl⟩ := heq
      simp only [hc, Bool.false_eq_true, ↓reduceIte, htw]

/-- the text after a bare `$NAME` does not prolong the name -/
theorem render1_after_var (m : List Char → List Char) (segs : List Seg) (hok : okAfterVar segs) :
    (render m 1 segs).takeWhile isAlphaNum = [] := by
  cases segs with
  | nil => rfl
  | cons sg rest =>
    rw [render_cons]
    cases sg with
    | lit s =>
      obtain ⟨c, t, rfl, hc⟩ := hok
      simp [renderSeg, List.takeWhile, hc]
    | braced x => simp [renderSeg, List.takeWhile, isAlphaNum]
    | var x => simp [renderSeg, List.takeWhile, isAlphaNum]
    | dollar =>
      simp only [renderSeg, show (1 : Nat) ≠ 0 by decide, show (1 : Nat) < 3 by decide, ↓reduceIte]
      rw [escaped_cons]
      simp [List.takeWhile, isAlphaNum]

theorem pass2 (m : List Char → List Char) (segs : List Seg) (hw : WFL segs) :
    ∀ fuel, (render m 1 segs).length < fuel → expandF m fuel (render m 1 segs) = render m 2 segs := by
  induction segs with
  | nil => intro fuel hf; cases fuel with
    | zero => simp at hf
    | succ f => rfl
  | cons sg segs ih =>
    intro fuel hf
    obtain ⟨hsg, hnext, hrest⟩ := hw
    have ih' := ih hrest
    rw [render_cons, render_cons]
    rw [render_cons] at hf
    cases sg with
    | lit s =>
      have hs : ∀ c ∈ s, c ≠ '$' := fun c hc => (hsg c hc).1
      simp only [renderSeg]
      rw [expandF_copy m s _ fuel hs hf, ih' _ (by simp [renderSeg] at hf; omega)]
    | dollar =>
      simp only [renderSeg, show (1 : Nat) ≠ 0 by decide, show (2 : Nat) ≠ 0 by decide, show (1 : Nat) < 3 by decide,
        show (2 : Nat) < 3 by decide, ↓reduceIte]
      simp only [renderSeg, show (1 : Nat) ≠ 0 by decide, show (1 : Nat) < 3 by decide, ↓reduceIte] at hf
      rw [expandF_copy m envEscaped _ fuel escaped_no_dollar hf,
        ih' _ (by simp only [List.length_append] at hf; omega)]
    | var x =>
      obtain ⟨hne, hx, hsp⟩ := hsg
      simp only [renderSeg, show (1 : Nat) < 2 by decide, show ¬ ((2 : Nat) < 2) by decide, ↓reduceIte]
      simp only [renderSeg, show (1 : Nat) < 2 by decide, ↓reduceIte] at hf
      cases fuel with
      | zero => simp at hf
      | succ f =>
        have hg := getShellName_var x (render m 1 segs) hne hx hsp (render1_after_var m segs (hnext x rfl))
        have hxe : x.isEmpty = false := by cases x <;> simp_all
        have hre : (x ++ render m 1 segs).isEmpty = false := by cases x <;> simp_all
        have step : expandF m (f + 1) ('$' :: (x ++ render m 1 segs)) = m x ++ expandF m f (render m 1 segs) := by
          simp only [expandF, beq_self_eq_true, hre, Bool.not_false, Bool.and_self, ↓reduceIte, hg, hxe,
            Bool.false_and, Bool.false_eq_true]
          congr 1
          simp
        rw [List.cons_append, step, ih' _ (by simp only [List.length_cons, List.length_append] at hf; omega)]
    | braced x =>
      obtain ⟨hne, hx⟩ := hsg
      simp only [renderSeg, show (1 : Nat) < 2 by decide, show ¬ ((2 : Nat) < 2) by decide, ↓reduceIte]
      simp only [renderSeg, show (1 : Nat) < 2 by decide, ↓reduceIte] at hf
      cases fuel with
      | zero => simp at hf
      | succ f =>
        have hg := getShellName_braced x (render m 1 segs) hne hx
        have hxe : x.isEmpty = false := by cases x <;> simp_all
        have e : '$' :: '{' :: (x ++ ['}']) ++ render m 1 segs = '$' :: ('{' :: (x ++ '}' :: render m 1 segs)) := by simp
        have step : expandF m (f + 1) ('$' :: ('{' :: (x ++ '}' :: render m 1 segs))) = m x ++ expandF m f (render m 1 segs) := by
          simp only [expandF, beq_self_eq_true, List.isEmpty_cons, Bool.not_false, Bool.and_self, ↓reduceIte, hg, hxe,
            Bool.false_and, Bool.false_eq_true]
          congr 1
          have hdrop : ('{' :: (x ++ '}' :: render m 1 segs)).drop (x.length + 2) = render m 1 segs := by
            simp [List.drop_append]
          rw [hdrop]
        rw [e, step, ih' _ (by simp only [List.length_cons, List.length_append, List.length_nil] at hf; omega)]

/-! ### the three rewrites together -/

/-- what the segments mean -/
def eval (m : List Char → List Char) (segs : List Seg) : List Char :=
  segs.flatMap fun
    | .lit s => s
    | .braced x => m x
    | .var x => m x
    | .dollar => ['$']

theorem render3_eval (m : List Char → List Char) (segs : List Seg) : render m 3 segs = eval m segs := by
  have h : renderSeg m 3 = fun sg => match sg with
      | .lit s => s | .braced x => m x | .var x => m x | .dollar => ['$'] := by
    funext sg; cases sg <;> simp [renderSeg]
  unfold render eval
  rw [h]

/-- **Load-time expansion on segment-built text**: `loadText` (the rewrites of `loadProjectFromFile`)
    maps the text to the evaluation of its segments. -/
theorem loadText_segments (m : List Char → List Char) (hm : CleanEnv m) (segs : List Seg) (hw : WFL segs) :
    loadText m (render m 0 segs) = eval m segs := by
  have e1 : "$$".toList = ['$', '$'] := by decide
  have e3 : "$".toList = ['$'] := by decide
  have h1 := pass1 m segs hw _ (Nat.lt_add_one (render m 0 segs).length)
  have h2 := pass2 m segs hw _ (Nat.lt_add_one (render m 1 segs).length)
  have h3 := pass3 m hm segs hw _ (Nat.lt_add_one (render m 2 segs).length)
  simp only [loadText, replaceAll, expand, e1, e3]
  rw [h1, h2, h3, render3_eval]

end PC.Env
