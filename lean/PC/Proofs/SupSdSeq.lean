import PC.Proofs.SupSd
/-! The unordered (sequential) shutdown, end to end: `shutDownAndWait` stops the instances of its
    list one after the other on the caller's thread and creates a waiter for each; it then waits for
    the shutdown wait group. While the caller is inside that loop every instance of the list is
    either still to be stopped or has its waiter; so when the caller can pass the wait group — after
    which `ShutDownProject` returns — every instance of the list is done (with `reachF_sdInv`). -/
namespace PC.Sup

/-- what the shutdown thread still has to stop, read off its label (`none`: not inside the loop) -/
def seqRem : Pc → Option (List IId)
  | .stopEnter _ _ (.sdSeq i rest _) => some (i :: rest)
  | .stopNotRunning _ (.sdSeq i rest _) => some (i :: rest)
  | .stopChecked _ _ (.sdSeq i rest _) => some (i :: rest)
  | .stopMarked _ _ (.sdSeq i rest _) => some (i :: rest)
  | .stopWaitKill _ (.sdSeq i rest _) => some (i :: rest)
  | .sdWg _ => some []
  | _ => none

/-- reachability while thread `t` stays inside the loop: its own steps start from loop labels -/
inductive ReachIn (t : Tid) (s0 : Sys) : Sys → Prop
  | init : ReachIn t s0 s0
  | thread {s : Sys} (u : Tid) (h : Hints) : ReachIn t s0 s → u < s.threads.length →
      (enabledThr s u = true ∨ mustPark s u = false) → (u = t → seqRem (s.thr t).pc ≠ some [] ) →
      ReachIn t s0 (stepThread s u h)
  | ext {s : Sys} (c : Choice) (h : Hints) : ReachIn t s0 s → (∀ u, c ≠ .run u) → ReachIn t s0 (step s c h)
  | clear {s : Sys} : ReachIn t s0 s → ReachIn t s0 { s with obs := [] }

theorem ReachIn.reachF {t : Tid} {s0 s : Sys} (h : ReachIn t s0 s) : ReachF s0 s := by
  induction h with
  | init => exact .init
  | thread u hh _ hu hr _ ih => exact .thread u hh ih hu hr
  | ext c hh _ hc ih => exact .ext c hh ih hc
  | clear _ ih => exact .clear ih

/-- every instance of `order` is still on the caller's list or has its waiter -/
def Cov (order : List IId) (t : Tid) (s : Sys) : Prop :=
  t < s.threads.length ∧ ∃ rem, seqRem (s.thr t).pc = some rem ∧
    ∀ j ∈ order, j ∈ rem ∨ ∃ w, w < s.threads.length ∧ (s.thr w).kind = .waiter j

theorem sdSeqNext_pc (s : Sys) (t : Tid) (rest : List IId) (k : SdK) (h : t < s.threads.length) :
    seqRem ((sdSeqNext s t rest k).thr t).pc = some rest := by
  unfold sdSeqNext
  cases rest with
  | nil => simp only; rw [pc_setPc _ _ _ h]; rfl
  | cons i rest' => simp only; rw [gotoStop_pc _ _ _ _ _ h]; rfl

theorem sdSeqNext_threads (s : Sys) (t : Tid) (rest : List IId) (k : SdK) (w : Tid) :
    (sdSeqNext s t rest k).threads.length = s.threads.length ∧ ((sdSeqNext s t rest k).thr w).kind = (s.thr w).kind := by
  unfold sdSeqNext
  cases rest with
  | nil => exact ⟨by simp [Sys.setPc], kind_setPc _ _ _ _⟩
  | cons i rest' =>
    refine ⟨by simp [gotoStop, Sys.setPc, Sys.setInst], ?_⟩
    unfold gotoStop
    rw [kind_setPc]
    rfl

/-- the continuation of the loop after `stopProcess(i)` returned: a waiter for `i` now exists and
    the caller goes on with the rest -/
theorem stopReturn_seq (s : Sys) (t : Tid) (i : IId) (rest : List IId) (k : SdK) (h : t < s.threads.length) :
    let s' := stopReturn s t (.sdSeq i rest k)
    seqRem (s'.thr t).pc = some rest ∧ s.threads.length < s'.threads.length ∧
    (s'.thr s.threads.length).kind = .waiter i := by
  unfold stopReturn
  simp only
  have hlen : t < (({ s with sdWg := s.sdWg + 1 } : Sys).spawn (.waiter i)).threads.length := by
    show t < (s.threads ++ [({ kind := .waiter i } : Thr)]).length
    rw [List.length_append]; exact Nat.lt_of_lt_of_le h (Nat.le_add_right _ _)
  refine ⟨sdSeqNext_pc _ t rest k hlen, ?_, ?_⟩
  · rw [(sdSeqNext_threads _ t rest k 0).1]; simp [Sys.spawn]
  · rw [(sdSeqNext_threads _ t rest k s.threads.length).2]
    simp [Sys.thr, Sys.spawn]

/-- kinds of existing threads and the length of the table under a thread step -/
theorem step_frame (s : Sys) (u : Tid) (h : Hints) (w : Tid) (hw : w < s.threads.length) :
    w < (stepThread s u h).threads.length ∧ ((stepThread s u h).thr w).kind = (s.thr w).kind :=
  ⟨Nat.lt_of_lt_of_le hw (stepThread_le s u h).tlen, stepThread_kind s u h w hw⟩

theorem cov_other (order : List IId) (t u : Tid) (s : Sys) (h : Hints) (hne : u ≠ t) (g : Cov order t s) :
    Cov order t (stepThread s u h) := by
  obtain ⟨ht, rem, hrem, hc⟩ := g
  have hle := stepThread_le s u h
  refine ⟨Nat.lt_of_lt_of_le ht hle.tlen, rem, ?_, ?_⟩
  · rw [hle.tframe t ht (Ne.symm hne)]; exact hrem
  · intro j hj
    rcases hc j hj with h1 | ⟨w, hw, hk⟩
    · exact Or.inl h1
    · obtain ⟨h2, h3⟩ := step_frame s u h w hw
      exact Or.inr ⟨w, h2, h3.trans hk⟩

/-- keep the covering facts of the instances other than the one just handled -/
theorem cov_keep (order : List IId) (s s' : Sys) (i : IId) (rest : List IId)
    (hk : ∀ w, w < s.threads.length → w < s'.threads.length ∧ (s'.thr w).kind = (s.thr w).kind)
    (hc : ∀ j ∈ order, j ∈ i :: rest ∨ ∃ w, w < s.threads.length ∧ (s.thr w).kind = .waiter j)
    (hnew : ∃ w, w < s'.threads.length ∧ (s'.thr w).kind = .waiter i) :
    ∀ j ∈ order, j ∈ rest ∨ ∃ w, w < s'.threads.length ∧ (s'.thr w).kind = .waiter j := by
  intro j hj
  rcases hc j hj with h1 | ⟨w, hw, hkw⟩
  · rcases List.mem_cons.mp h1 with rfl | h2
    · exact Or.inr hnew
    · exact Or.inl h2
  · obtain ⟨h2, h3⟩ := hk w hw
    exact Or.inr ⟨w, h2, h3.trans hkw⟩

/-- same list, same covering: the arms that only move the caller to the next label of `stopProcess` -/
theorem cov_same (order : List IId) (t : Tid) (s : Sys) (h : Hints) (rem : List IId)
    (ht : t < s.threads.length)
    (hc : ∀ j ∈ order, j ∈ rem ∨ ∃ w, w < s.threads.length ∧ (s.thr w).kind = .waiter j)
    (hpc : seqRem ((stepThread s t h).thr t).pc = some rem) : Cov order t (stepThread s t h) := by
  refine ⟨(step_frame s t h t ht).1, rem, hpc, ?_⟩
  intro j hj
  rcases hc j hj with h1 | ⟨w, hw, hk⟩
  · exact Or.inl h1
  · obtain ⟨h2, h3⟩ := step_frame s t h w hw
    exact Or.inr ⟨w, h2, h3.trans hk⟩

/-- after `stopReturn … (.sdSeq i rest k)` reached from a state with the same thread table as `s1` -/
theorem cov_return (order : List IId) (t : Tid) (s s1 : Sys) (hh : Hints) (i : IId) (rest : List IId) (k : SdK)
    (ht : t < s.threads.length)
    (hc : ∀ j ∈ order, j ∈ i :: rest ∨ ∃ w, w < s.threads.length ∧ (s.thr w).kind = .waiter j)
    (hs1 : s1.threads = s.threads)
    (e : stepThread s t hh = stopReturn s1 t (.sdSeq i rest k)) : Cov order t (stepThread s t hh) := by
  have ht1 : t < s1.threads.length := by rw [hs1]; exact ht
  obtain ⟨hpc, hlen, hkind⟩ := stopReturn_seq s1 t i rest k ht1
  rw [← e] at hpc hlen hkind
  refine ⟨(step_frame s t hh t ht).1, rest, hpc, ?_⟩
  exact cov_keep order s _ i rest (fun w hw => step_frame s t hh w hw) hc
    ⟨s1.threads.length, hlen, hkind⟩


/-- the caller's own steps keep the covering -/
theorem cov_self (order : List IId) (t : Tid) (s : Sys) (h : Hints) (g : Cov order t s)
    (hne : seqRem (s.thr t).pc ≠ some []) : Cov order t (stepThread s t h) := by
  obtain ⟨ht, rem, hrem, hc⟩ := g
  -- which label of the loop the caller is at
  cases hpc : (s.thr t).pc with
  | stopEnter i cr k =>
    cases k with
    | sdSeq i' rest k' =>
      rw [hpc] at hrem; simp only [seqRem, Option.some.injEq] at hrem; subst hrem
      have e : stepThread s t h = armStopEnter s t i cr (.sdSeq i' rest k') := by unfold stepThread; simp [hpc]
      refine cov_same order t s h _ ht hc ?_
      rw [e]
      rcases armStopEnter_pc s t i cr (.sdSeq i' rest k') ht with e1 | e1 <;> rw [e1] <;> rfl
    | _ => rw [hpc] at hrem; simp [seqRem] at hrem
  | stopChecked i cr k =>
    cases k with
    | sdSeq i' rest k' =>
      rw [hpc] at hrem; simp only [seqRem, Option.some.injEq] at hrem; subst hrem
      have e : stepThread s t h = armStopChecked s t i cr (.sdSeq i' rest k') := by unfold stepThread; simp [hpc]
      refine cov_same order t s h _ ht hc ?_
      rw [e, armStopChecked_pc s t i cr _ ht]; rfl
    | _ => rw [hpc] at hrem; simp [seqRem] at hrem
  | stopNotRunning i k =>
    cases k with
    | sdSeq i' rest k' =>
      rw [hpc] at hrem; simp only [seqRem, Option.some.injEq] at hrem; subst hrem
      have e : stepThread s t h = armStopNotRunning s t i (.sdSeq i' rest k') := by unfold stepThread; simp [hpc]
      unfold armStopNotRunning at e
      simp only at e
      split at e
      · exact cov_return order t s _ h i' rest k' ht hc (by simp [onProcessEnd_threads]) e
      · exact cov_return order t s _ h i' rest k' ht hc rfl e
    | _ => rw [hpc] at hrem; simp [seqRem] at hrem
  | stopMarked i cr k =>
    cases k with
    | sdSeq i' rest k' =>
      rw [hpc] at hrem; simp only [seqRem, Option.some.injEq] at hrem; subst hrem
      have e : stepThread s t h = armStopMarked s t i cr (.sdSeq i' rest k') := by unfold stepThread; simp [hpc]
      unfold armStopMarked at e
      simp only at e
      split at e
      · exact cov_return order t s _ h i' rest k' ht hc (stopMarkedPrep_threads s i cr) e
      · split at e
        · refine cov_same order t s h _ ht hc ?_
          rw [e, pc_setPc _ _ _ (by simp [Sys.setInst, cmdStop_threads, stopMarkedPrep_threads]; exact ht)]; rfl
        · exact cov_return order t s _ h i' rest k' ht hc (by rw [cmdStop_threads, stopMarkedPrep_threads]) e
    | _ => rw [hpc] at hrem; simp [seqRem] at hrem
  | stopWaitKill i k =>
    cases k with
    | sdSeq i' rest k' =>
      rw [hpc] at hrem; simp only [seqRem, Option.some.injEq] at hrem; subst hrem
      have e : stepThread s t h = armStopWaitKill s t i (.sdSeq i' rest k') := by unfold stepThread; simp [hpc]
      unfold armStopWaitKill at e
      split at e
      · exact cov_return order t s _ h i' rest k' ht hc (cmdStop_threads s i 9) e
      · exact cov_return order t s _ h i' rest k' ht hc rfl e
    | _ => rw [hpc] at hrem; simp [seqRem] at hrem
  | sdWg k => rw [hpc] at hne; exact absurd rfl hne
  | _ => rw [hpc] at hrem; simp [seqRem] at hrem

theorem cov_ext (order : List IId) (t : Tid) (s : Sys) (c : Choice) (h : Hints) (hc : ∀ u, c ≠ .run u)
    (g : Cov order t s) : Cov order t (step s c h) := by
  obtain ⟨ht, rem, hrem, hcov⟩ := g
  have hthr : ∀ w, w < s.threads.length → w < (step s c h).threads.length ∧ (step s c h).thr w = s.thr w := by
    intro w hw
    rcases ext_threads s c h hc with e | ⟨k, e, _⟩
    · exact ⟨by rw [e]; exact hw, by unfold Sys.thr; rw [e]⟩
    · refine ⟨by rw [e]; simp; omega, ?_⟩
      unfold Sys.thr
      rw [e, List.getD_eq_getElem?_getD, List.getD_eq_getElem?_getD, List.getElem?_append_left hw]
  refine ⟨(hthr t ht).1, rem, by rw [(hthr t ht).2]; exact hrem, ?_⟩
  intro j hj
  rcases hcov j hj with h1 | ⟨w, hw, hk⟩
  · exact Or.inl h1
  · exact Or.inr ⟨w, (hthr w hw).1, by rw [(hthr w hw).2]; exact hk⟩

theorem reachIn_cov (order : List IId) (t : Tid) {s1 s2 : Sys} (g : Cov order t s1) (h : ReachIn t s1 s2) :
    Cov order t s2 := by
  induction h with
  | init => exact g
  | thread u hh _ hu hr hin ih =>
    by_cases e : u = t
    · subst e; exact cov_self order u _ hh ih (hin rfl)
    · exact cov_other order t u _ hh e ih
  | ext c hh _ hc ih => exact cov_ext order t _ c hh hc ih
  | clear _ ih => exact ih

/-- **Unordered shutdown returns only when everything it set out to stop is done.** From any state
    the model passes through in which a thread has prepared a shutdown of `order` (sequential mode),
    let that thread work through its list and let anything else happen meanwhile: whenever it then
    stands at the shutdown wait group and is able to pass it — after which `ShutDownProject` returns
    — every instance of `order` is done. -/
theorem unordered_shutdown_returns_after_all_done (gr : Gran) (o : Bool) (cfgs : List Cfg) {s0 s2 : Sys}
    (h0 : ReachF (init gr o cfgs) s0) (t : Tid) (order : List IId) (k k' : SdK) (hh : Hints)
    (ht : t < s0.threads.length) (hp : (s0.thr t).pc = .sdPrepared order k) (hord : s0.ordered = false)
    (hrun : enabledThr s0 t = true ∨ mustPark s0 t = false)
    (h12 : ReachIn t (stepThread s0 t hh) s2) (hp2 : (s2.thr t).pc = .sdWg k') (hen : enabledThr s2 t = true) :
    ∀ i ∈ order, (s2.inst i).done = true := by
  intro i hi
  have h02 : ReachF (init gr o cfgs) s2 := ReachF.trans (ReachF.thread t hh h0 ht hrun) h12.reachF
  have e : stepThread s0 t hh = sdSeqNext s0 t order k := by
    unfold stepThread; simp [hp, armSdPrepared, hord]
  have g1 : Cov order t (stepThread s0 t hh) := by
    rw [e]
    exact ⟨by rw [(sdSeqNext_threads s0 t order k 0).1]; exact ht, order, sdSeqNext_pc s0 t order k ht,
      fun j hj => Or.inl hj⟩
  obtain ⟨_, rem, hrem, hc⟩ := reachIn_cov order t g1 h12
  rw [hp2] at hrem
  simp only [seqRem, Option.some.injEq] at hrem
  subst hrem
  rcases hc i hi with h1 | ⟨w, hw, hk⟩
  · cases h1
  · have hz : s2.sdWg = 0 := by unfold enabledThr at hen; simpa [hp2] using hen
    exact (sd_pass (reachF_sdInv gr o cfgs h02) hz w hw i (Or.inr hk)).2

end PC.Sup
