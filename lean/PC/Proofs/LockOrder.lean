/-! Lock ordering and mutex deadlocks (C20).

    A mutex *class* is a field of a type (`Process.stateMtx`); an *instance* is that field of one
    object. A thread holds a set of instances and may be waiting for one more. A (mutex-only)
    deadlock is a non-empty set of threads each of which waits for an instance held by a thread of
    the set. If all threads acquire in an order that is strictly increasing for some rank of the
    classes — in particular never an instance of a class while holding another instance of the same
    class — no such set exists, whatever the number of threads, objects and locks. -/
namespace PC.LockOrder

abbrev Cls := String

structure LockInst where
  cls : Cls
  obj : Nat
deriving DecidableEq, Repr

structure Thr where
  held : List LockInst
  waiting : Option LockInst
deriving Repr

/-- the thread waits only for a mutex whose class ranks above every class it holds -/
def Ordered (rank : Cls → Nat) (t : Thr) : Prop :=
  ∀ w, t.waiting = some w → ∀ h ∈ t.held, rank h.cls < rank w.cls

/-- a deadlocked set of threads -/
def Deadlock (ts : List Thr) : Prop :=
  ts ≠ [] ∧ ∀ t ∈ ts, ∃ w, t.waiting = some w ∧ ∃ u ∈ ts, w ∈ u.held

theorem exists_max {α : Type} (f : α → Nat) : ∀ (l : List α), l ≠ [] → ∃ x ∈ l, ∀ y ∈ l, f y ≤ f x
  | [], h => absurd rfl h
  | [a], _ => ⟨a, by simp, by simp⟩
  | a :: b :: l, _ => by
    obtain ⟨x, hx, hmax⟩ := exists_max f (b :: l) (by simp)
    by_cases hax : f x ≤ f a
    · refine ⟨a, by simp, ?_⟩
      intro y hy
      rcases List.mem_cons.mp hy with rfl | hy
      · exact Nat.le_refl _
      · exact Nat.le_trans (hmax y hy) hax
    · refine ⟨x, List.mem_cons_of_mem _ hx, ?_⟩
      intro y hy
      rcases List.mem_cons.mp hy with rfl | hy
      · omega
      · exact hmax y hy

/-- the rank of the class a thread waits for (0 if it does not wait) -/
def waitRank (rank : Cls → Nat) (t : Thr) : Nat :=
  match t.waiting with
  | some w => rank w.cls
  | none => 0

/-- **No mutex deadlock under a rank-respecting acquisition order.** -/
theorem no_deadlock (rank : Cls → Nat) (ts : List Thr) (h : ∀ t ∈ ts, Ordered rank t) : ¬ Deadlock ts := by
  rintro ⟨hne, hall⟩
  obtain ⟨t, ht, hmax⟩ := exists_max (waitRank rank) ts hne
  obtain ⟨w, hw, u, hu, hwu⟩ := hall t ht
  obtain ⟨w', hw', _⟩ := hall u hu
  have h1 : rank w.cls < rank w'.cls := h u hu w' hw' w hwu
  have h2 := hmax u hu
  simp only [waitRank, hw, hw'] at h2
  omega

/-- what the extracted table says about a thread: whenever it waits for an instance of class `b`
    while holding one of class `a`, the pair `(a, b)` is an edge of the table -/
def Covered (edges : List (Cls × Cls × String)) (t : Thr) : Prop :=
  ∀ w, t.waiting = some w → ∀ h ∈ t.held, ∃ f, (h.cls, w.cls, f) ∈ edges

theorem covered_ordered (edges : List (Cls × Cls × String)) (rank : Cls → Nat)
    (hr : ∀ e ∈ edges, rank e.1 < rank e.2.1) (t : Thr) (hc : Covered edges t) : Ordered rank t := by
  intro w hw h hh
  obtain ⟨f, hf⟩ := hc w hw h hh
  exact hr _ hf

/-- a table all of whose edges increase the rank admits no deadlock among threads it covers -/
theorem table_no_deadlock (edges : List (Cls × Cls × String)) (rank : Cls → Nat)
    (hr : ∀ e ∈ edges, rank e.1 < rank e.2.1) (ts : List Thr) (hc : ∀ t ∈ ts, Covered edges t) :
    ¬ Deadlock ts :=
  no_deadlock rank ts fun t ht => covered_ordered edges rank hr t (hc t ht)

/-- the order matters: two threads taking two mutexes in opposite orders do deadlock -/
theorem opposite_orders_deadlock :
    Deadlock [⟨[⟨"a", 0⟩], some ⟨"b", 0⟩⟩, ⟨[⟨"b", 0⟩], some ⟨"a", 0⟩⟩] := by
  refine ⟨by simp, ?_⟩
  intro t ht
  simp only [List.mem_cons, List.mem_nil_iff, or_false] at ht
  rcases ht with rfl | rfl
  · exact ⟨⟨"b", 0⟩, rfl, ⟨[⟨"b", 0⟩], some ⟨"a", 0⟩⟩, by simp, by simp⟩
  · exact ⟨⟨"a", 0⟩, rfl, ⟨[⟨"a", 0⟩], some ⟨"b", 0⟩⟩, by simp, by simp⟩

/-- …and so do two threads nesting two instances of one class (hence the strict rank) -/
theorem same_class_deadlock :
    Deadlock [⟨[⟨"m", 1⟩], some ⟨"m", 2⟩⟩, ⟨[⟨"m", 2⟩], some ⟨"m", 1⟩⟩] := by
  refine ⟨by simp, ?_⟩
  intro t ht
  simp only [List.mem_cons, List.mem_nil_iff, or_false] at ht
  rcases ht with rfl | rfl
  · exact ⟨⟨"m", 2⟩, rfl, ⟨[⟨"m", 2⟩], some ⟨"m", 1⟩⟩, by simp, by simp⟩
  · exact ⟨⟨"m", 1⟩, rfl, ⟨[⟨"m", 1⟩], some ⟨"m", 2⟩⟩, by simp, by simp⟩

end PC.LockOrder
