import PC.Proofs.SupRQ
/-! `ESame`: every thread step leaves the project exit code and its "already decided" flag alone —
    except the two trigger arms (`armProcSkipped` with `exit_on_skipped`, `armProcDoneAdded` with
    `exit_on_failure` and a non-zero code or `exit_on_end`), which record the code of the process
    that ends, and only if no code was recorded before. Per-arm lemmas as in `SupRQ` (this file is
    that family re-stated for the exit-code cells). -/
namespace PC.Sup

/-- the project exit code and its once-flag are untouched -/
structure ESame (s s' : Sys) : Prop where
  set : s'.exitCodeSet = s.exitCodeSet
  code : s'.exitCode = s.exitCode

theorem ESame.refl (s : Sys) : ESame s s := ⟨rfl, rfl⟩
theorem ESame.trans {a b c : Sys} (h1 : ESame a b) (h2 : ESame b c) : ESame a c :=
  ⟨h2.set.trans h1.set, h2.code.trans h1.code⟩
theorem ESame.of_same {s s' : Sys} (h : ESame s s') : ESame s s' := h

macro "esame" : tactic => `(tactic| exact ⟨rfl, rfl⟩)

theorem setInst_e (s : Sys) (i : IId) (f : Inst → Inst) (_hf : ∀ x, Inst.Le x (f x)) : ESame s (s.setInst i f) := ⟨rfl, rfl⟩
theorem emit_e (s : Sys) (o) : ESame s (s.emit o) := ⟨rfl, rfl⟩
theorem note_e (s : Sys) (e : GateEv) (_he : ∀ i d c, e ≠ .passed i d c) : ESame s (s.note e) := ⟨rfl, rfl⟩
theorem notePassed_e (s : Sys) (i d : IId) (c : Cond) : ESame s (s.notePassed i d c) := by
  unfold Sys.notePassed; split
  · exact ⟨rfl, rfl⟩
  · exact ESame.refl _
theorem setPc_e (s : Sys) (t pc) : ESame s (s.setPc t pc) := ⟨rfl, rfl⟩
theorem spawn_e (s : Sys) (k) (_hk : ∀ i, k = .proc i → i < s.insts.length) : ESame s (s.spawn k) := ⟨rfl, rfl⟩
theorem setPs_e (s : Sys) (n : Name) (f : PState → PState) : ESame s (s.setPs n f) := ⟨rfl, rfl⟩

theorem ESame.then {a b c : Sys} (h1 : ESame a b) (h2 : ESame b c) : ESame a c := h1.trans h2
theorem ESame.congr_left {s0 s s' : Sys} (h : ESame s s') (e : ESame s0 s) : ESame s0 s' := e.trans h
theorem ESame.congr {s s' s'' : Sys} (h : ESame s s') (e : ESame s' s'') : ESame s s'' := h.trans e

macro "epeel " t:term : tactic => `(tactic| refine ESame.trans ?_ $t)
macro "eupd " t:term : tactic => `(tactic| exact ESame.congr_left $t (by esame))
macro "done_e" : tactic => `(tactic| first | exact ESame.refl _ | exact ESame.of_same (by esame))

/-! ### helpers -/

theorem setState_e (s : Sys) (i st) : ESame s (setState s i st) := by
  unfold setState
  simp only
  cases st <;> simp only <;>
    first
    | exact (setPs_e _ _ _).then (emit_e _ _)
    | exact ((setPs_e _ _ _).then (emit_e _ _)).then (setPs_e _ _ _)
    | exact (((setPs_e _ _ _).then (emit_e _ _)).then (setPs_e _ _ _)).then (emit_e _ _)

theorem setExit_e (s : Sys) (n c) : ESame s (setExit s n c) := by
  unfold setExit; exact (setPs_e _ _ _).then (emit_e _ _)

/-- what a trigger arm does to the exit-code cells: nothing if a code was recorded before, else it
    records `c` -/
def Records (s s' : Sys) (c : Int) : Prop :=
  (s.exitCodeSet = true ∧ ESame s s') ∨ (s.exitCodeSet = false ∧ s'.exitCodeSet = true ∧ s'.exitCode = c)

theorem recordExit_rec (s : Sys) (c) : Records s (recordExit s c) c := by
  unfold recordExit
  by_cases h : s.exitCodeSet = true
  · exact Or.inl ⟨h, by simp only [h, ↓reduceIte]; exact ESame.refl _⟩
  · have h' : s.exitCodeSet = false := by simpa using h
    exact Or.inr ⟨h', by simp [h', Sys.emit], by simp [h', Sys.emit]⟩

theorem Records.then {s s' s'' : Sys} {c : Int} (h : Records s s' c) (e : ESame s' s'') : Records s s'' c := by
  rcases h with ⟨h1, h2⟩ | ⟨h1, h2, h3⟩
  · exact Or.inl ⟨h1, h2.trans e⟩
  · exact Or.inr ⟨h1, e.set.trans h2, e.code.trans h3⟩

theorem onProcessEnd_e (s : Sys) (i st) : ESame s (onProcessEnd s i st) := by
  unfold onProcessEnd
  exact ((setInst_e s i endInst endInst_le).then (setState_e _ _ _)).then (emit_e _ _)

theorem cmdExit_e (s : Sys) (i c) : ESame s (cmdExit s i c) := setInst_e _ _ _ (by inst_le)

theorem cmdStop_e (s : Sys) (i sig) : ESame s (cmdStop s i sig) := by
  unfold cmdStop
  simp only
  split
  · split
    · exact (emit_e _ _).then (cmdExit_e _ _ _)
    · split
      · exact (emit_e _ _).then (cmdExit_e _ _ _)
      · exact emit_e _ _
  · exact emit_e _ _

theorem decideRestart_e (s : Sys) (i) : ESame s (decideRestart s i).2 := setInst_e _ _ _ (by inst_le)

theorem append_e (s : Sys) (x : Inst) (_hx : EndedI x) : ESame s { s with insts := s.insts ++ [x] } :=
  ESame.of_same (by esame)

theorem spawnProc_e (s : Sys) (n) : ESame s (spawnProc s n) := by
  unfold spawnProc newInst
  simp only
  epeel (spawn_e _ _ (by
    intro i h
    cases h
    have e : ∀ (st : Status) (s0 : Sys) (j : IId), (setState s0 j st).insts = s0.insts := by
      intro st s0 j; unfold setState; cases st <;> rfl
    simp [e]))
  have h1 : ESame s ({ s with insts := s.insts ++ [{ name := n, seq := (s.insts.filter (·.name = n)).length + 1 }] } : Sys) :=
    append_e s _ (by intro h; simp at h)
  exact (h1.then (setState_e _ _ _)).congr (by esame)

theorem gotoCleanup_e (s : Sys) (t) : ESame s (gotoCleanup s t) := by
  unfold gotoCleanup; epeel (setPc_e _ _ _); done_e

theorem gotoStop_e (s : Sys) (t i cr k) : ESame s (gotoStop s t i cr k) := by
  unfold gotoStop
  exact (setInst_e _ _ _ (by inst_le)).then (setPc_e _ _ _)

theorem apiRet_e (s : Sys) (t r) : ESame s (apiRet s t r) := by
  unfold apiRet; split
  · exact (emit_e _ _).then (setPc_e _ _ _)
  all_goals exact setPc_e _ _ _

theorem apiSpawn_e (s : Sys) (t n) : ESame s (apiSpawn s t n) := by
  unfold apiSpawn
  simp only
  split
  · epeel (setPc_e _ _ _); epeel (emit_e _ _); exact spawnProc_e _ _
  all_goals (epeel (setPc_e _ _ _); exact spawnProc_e _ _)

theorem addDone_e (s : Sys) (i : IId) : ESame s (addDone s i) := by
  unfold addDone; done_e
theorem doSkip_e (s : Sys) (t i) : ESame s (doSkip s t i) := by
  unfold doSkip; exact (addDone_e _ _).then ((onProcessEnd_e _ _ _).then (setPc_e _ _ _))

theorem afterDeps_e (s : Sys) (t) : ESame s (afterDeps s t) := setPc_e _ _ _

theorem lookupRunning_e (s : Sys) (t i k c r) : ESame s (lookupRunning s t i k c r) := by
  unfold lookupRunning; split
  · exact ((note_e _ _ (by intro _ _ _ h; cases h)).then (emit_e _ _)).then (setPc_e _ _ _)
  · exact ((note_e _ _ (by intro _ _ _ h; cases h)).then (emit_e _ _)).then (setPc_e _ _ _)

theorem depStep_e (s : Sys) (t i h r) : ESame s (depStep s t i h r) := by
  unfold depStep
  split
  · exact afterDeps_e _ _
  · simp only
    split
    · exact (((emit_e _ _).then (note_e _ _ (by intro _ _ _ h; cases h))).then (emit_e _ _)).then (setPc_e _ _ _)
    · split
      · exact (emit_e _ _).then (lookupRunning_e _ _ _ _ _ _)
      · exact (emit_e _ _).then (setPc_e _ _ _)

theorem doLaunch_e (s : Sys) (t i) : ESame s (doLaunch s t i) := by
  unfold doLaunch
  simp only
  split
  · epeel (setPc_e _ _ _)
    epeel (onProcessEnd_e _ _ _)
    epeel (setExit_e _ _ _)
    epeel (emit_e _ _)
    exact setState_e _ _ _
  · epeel (setPc_e _ _ _)
    have key : ESame s
        (({ (setState s i .running).emit (.launch ((setState s i .running).nameOf i)) with
            launchClock := ((setState s i .running).emit (.launch ((setState s i .running).nameOf i))).launchClock + 1 } : Sys).setInst i
          fun x => { x with cmd := .alive, launches := x.launches + 1,
                            launchedAt := ((setState s i .running).emit (.launch ((setState s i .running).nameOf i))).launchClock + 1 }) := by
      epeel (setInst_e _ _ _ (by inst_le))
      have hE : ESame s ((setState s i .running).emit (.launch ((setState s i .running).nameOf i))) :=
        (setState_e s i .running).then (emit_e _ _)
      exact hE.congr (by esame)
    split
    · exact key.trans (spawn_e _ _ (by intro i h; cases h))
    · exact key

theorem foldl_e {α : Type} (f : Sys → α → Sys) (hf : ∀ s a, ESame s (f s a)) (l : List α) (s : Sys) :
    ESame s (l.foldl f s) := by
  induction l generalizing s with
  | nil => exact ESame.refl _
  | cons a l ih => exact (hf s a).then (ih _)

theorem sdBody_e (s : Sys) (t h k) : ESame s (sdBody s t h k) := by
  unfold sdBody
  simp only
  epeel (setPc_e _ _ _)
  eupd (foldl_e _ (fun s i => setInst_e _ _ _ (by inst_le)) _ _)

theorem sdSeqNext_e (s : Sys) (t r k) : ESame s (sdSeqNext s t r k) := by
  unfold sdSeqNext; split
  · exact setPc_e _ _ _
  · exact gotoStop_e _ _ _ _ _

theorem sdReturn_e (s : Sys) (t k) : ESame s (sdReturn s t k) := by
  unfold sdReturn
  simp only
  split
  · split
    · epeel (setPc_e _ _ _); epeel (emit_e _ _); epeel (emit_e _ _); done_e
    all_goals (epeel (setPc_e _ _ _); epeel (emit_e _ _); done_e)
  · epeel (gotoCleanup_e _ _); epeel (emit_e _ _); done_e
  · epeel (gotoCleanup_e _ _); epeel (emit_e _ _); done_e

theorem stopReturn_e (s : Sys) (t k) : ESame s (stopReturn s t k) := by
  unfold stopReturn
  split
  · split
    · exact (emit_e _ _).then (setPc_e _ _ _)
    all_goals exact setPc_e _ _ _
  · exact setPc_e _ _ _
  · epeel (sdSeqNext_e _ _ _ _)
    eupd (spawn_e _ _ (by intro i h; cases h))
  · exact setPc_e _ _ _
  · exact setPc_e _ _ _

theorem apiFirst_e (s : Sys) (t h op) : ESame s (apiFirst s t h op) := by
  unfold apiFirst
  cases op with
  | start n => simp only; split <;> first | exact apiRet_e _ _ _ | exact setPc_e _ _ _
  | stop n =>
    simp only; split
    · exact (setInst_e _ _ _ (by inst_le)).then (gotoStop_e _ _ _ _ _)
    · split <;> exact apiRet_e _ _ _
  | restart n =>
    simp only; split
    · exact (setInst_e _ _ _ (by inst_le)).then (gotoStop_e _ _ _ _ _)
    · split
      · exact setPc_e _ _ _
      · exact apiRet_e _ _ _
  | state n => simp only; split <;> exact apiRet_e _ _ _
  | shutdown => exact setPc_e _ _ _
  | runMain =>
    simp only
    epeel (setPc_e _ _ _)
    eupd (foldl_e _ spawnProc_e _ _)

/-! ### the arms -/

theorem armDepLookup_e (s : Sys) (t d c r) : ESame s (armDepLookup s t d c r) := by
  unfold armDepLookup; cases c <;> exact setPc_e _ _ _
theorem armWaitDone_e (s : Sys) (t i d ok r) : ESame s (armWaitDone s t i d ok r) := by
  unfold armWaitDone; split
  · exact doSkip_e _ _ _
  · exact (notePassed_e _ _ _ _).then (setPc_e _ _ _)
theorem armWaitReady_e (s : Sys) (t i d r) : ESame s (armWaitReady s t i d r) := by
  unfold armWaitReady; split
  · exact (notePassed_e _ _ _ _).then (setPc_e _ _ _)
  · exact doSkip_e _ _ _
theorem armWaitLogReady_e (s : Sys) (t i d r) : ESame s (armWaitLogReady s t i d r) := by
  unfold armWaitLogReady; split
  · exact (notePassed_e _ _ _ _).then (setPc_e _ _ _)
  · exact doSkip_e _ _ _
/-- the skip path records exit code 1 exactly for `exit_on_skipped` -/
theorem armProcSkipped_e (s : Sys) (t i) :
    ((s.icfg i).exitOnSkipped = true ∧ Records s (armProcSkipped s t i) 1) ∨
    ((s.icfg i).exitOnSkipped = false ∧ ESame s (armProcSkipped s t i)) := by
  unfold armProcSkipped
  cases h : (s.icfg i).exitOnSkipped with
  | true => exact Or.inl ⟨rfl, by simp only [↓reduceIte]; exact (recordExit_rec _ _).then (setPc_e _ _ _)⟩
  | false => exact Or.inr ⟨rfl, by simp only [Bool.false_eq_true, ↓reduceIte]; exact gotoCleanup_e _ _⟩
theorem armRunEnter_e (s : Sys) (t i) : ESame s (armRunEnter s t i) := by
  unfold armRunEnter; split
  · exact (onProcessEnd_e _ _ _).then (setPc_e _ _ _)
  · exact setPc_e _ _ _
theorem armRunChecked_e (s : Sys) (t i) : ESame s (armRunChecked s t i) := by
  unfold armRunChecked; split
  · exact ((setExit_e _ _ _).then (onProcessEnd_e _ _ _)).then (setPc_e _ _ _)
  · exact ((setInst_e _ _ _ (by inst_le)).then (emit_e _ _)).then (doLaunch_e _ _ _)
theorem armCmdWait_e (s : Sys) (t i) : ESame s (armCmdWait s t i) := by
  unfold armCmdWait; split
  · exact (setExit_e _ _ _).then (setPc_e _ _ _)
  · exact ESame.refl _
theorem armBackoff_e (s : Sys) (t i) : ESame s (armBackoff s t i) := by
  unfold armBackoff; split
  · exact (onProcessEnd_e _ _ _).then (setPc_e _ _ _)
  · exact setPc_e _ _ _
theorem armProcRan_e (s : Sys) (t i c) : ESame s (armProcRan s t i c) := by
  unfold armProcRan; epeel (setPc_e _ _ _); done_e
/-- is the end of instance `i` with exit code `c` a trigger? -/
def isTrigger (s : Sys) (i : IId) (c : Int) : Prop :=
  (c ≠ 0 ∧ (s.icfg i).policy = .exitOnFailure) ∨ (s.icfg i).exitOnEnd = true

/-- the end of a process records its exit code exactly when it is a trigger -/
theorem armProcDoneAdded_e (s : Sys) (t i c) :
    (isTrigger s i c ∧ Records s (armProcDoneAdded s t i c) c) ∨
    (¬ isTrigger s i c ∧ ESame s (armProcDoneAdded s t i c)) := by
  unfold armProcDoneAdded isTrigger
  simp only
  split
  · rename_i h; exact Or.inl ⟨h, (recordExit_rec _ _).then (setPc_e _ _ _)⟩
  · rename_i h; exact Or.inr ⟨h, gotoCleanup_e _ _⟩

theorem armRunExited_e (s : Sys) (t i) : ESame s (armRunExited s t i) := by
  unfold armRunExited
  simp only
  refine (decideRestart_e s i).then ?_
  split
  · exact (((setState_e _ _ _).then (setPs_e _ _ _)).then (emit_e _ _)).then (setPc_e _ _ _)
  · exact (onProcessEnd_e _ _ _).then (setPc_e _ _ _)
theorem armLockCleanup_e (s : Sys) (t i) : ESame s (armLockCleanup s t i) := by
  unfold armLockCleanup; split
  · epeel (setPc_e _ _ _); done_e
  · exact setPc_e _ _ _

theorem stepProc_e (s : Sys) (t i h pc) (hp1 : pc ≠ .procSkipped) (hp2 : ∀ c, pc ≠ .procDoneAdded c) :
    ESame s (stepProc s t i h pc) := by
  cases pc
  case procSkipped => exact absurd rfl hp1
  case procDoneAdded c => exact absurd rfl (hp2 c)
  all_goals simp only [stepProc]
  case runExited => exact armRunExited_e _ _ _
  case begin => exact setPc_e _ _ _
  case depNext rest => exact depStep_e _ _ _ _ _
  case lockDep k c rest => exact lookupRunning_e _ _ _ _ _ _
  case depLookup d c rest => exact armDepLookup_e _ _ _ _ _
  case waitDone d ok rest => exact armWaitDone_e _ _ _ _ _ _
  case waitReady d rest => exact armWaitReady_e _ _ _ _ _
  case waitLogReady d rest => exact armWaitLogReady_e _ _ _ _ _
  case waitStarted d rest => exact (notePassed_e _ _ _ _).then (setPc_e _ _ _)
  case runEnter => exact armRunEnter_e _ _ _
  case runChecked => exact armRunChecked_e _ _ _
  case cmdWait => exact armCmdWait_e _ _ _
  case backoff => exact armBackoff_e _ _ _
  case backoffElapsed => exact doLaunch_e _ _ _
  case procRan c => exact armProcRan_e _ _ _ _
  case lockCleanup => exact armLockCleanup_e _ _ _
  all_goals exact ESame.refl _

theorem armStopEnter_e (s : Sys) (t i cr k) : ESame s (armStopEnter s t i cr k) := by
  unfold armStopEnter; split <;> exact setPc_e _ _ _
theorem armStopNotRunning_e (s : Sys) (t i k) : ESame s (armStopNotRunning s t i k) := by
  unfold armStopNotRunning; simp only; split
  · exact (onProcessEnd_e _ _ _).then (stopReturn_e _ _ _)
  · exact stopReturn_e _ _ _
theorem armStopChecked_e (s : Sys) (t i cr k) : ESame s (armStopChecked s t i cr k) := by
  unfold armStopChecked; exact (setState_e _ _ _).then (setPc_e _ _ _)

theorem stopMarkedPrep_e (s : Sys) (i cr) : ESame s (stopMarkedPrep s i cr) := by
  unfold stopMarkedPrep
  apply setInst_e
  intro x
  refine ⟨rfl, rfl, id, id, ?_, id, ?_, ?_⟩
  · intro h; simp [h]
  · intro h; simp [h]
  · intro h1 h2; simp_all

theorem armStopMarked_e (s : Sys) (t i cr k) : ESame s (armStopMarked s t i cr k) := by
  unfold armStopMarked
  simp only
  split
  · epeel (stopReturn_e _ _ _)
    exact stopMarkedPrep_e _ _ _
  · split
    · epeel (setPc_e _ _ _)
      epeel (setInst_e _ _ _ (by inst_le))
      epeel (cmdStop_e _ _ _)
      exact stopMarkedPrep_e _ _ _
    · epeel (stopReturn_e _ _ _)
      epeel (cmdStop_e _ _ _)
      exact stopMarkedPrep_e _ _ _
theorem armStopWaitKill_e (s : Sys) (t i k) : ESame s (armStopWaitKill s t i k) := by
  unfold armStopWaitKill; split
  · exact (cmdStop_e _ _ _).then (stopReturn_e _ _ _)
  · exact stopReturn_e _ _ _

theorem armSdEnter_e (s : Sys) (t h k) : ESame s (armSdEnter s t h k) := by
  unfold armSdEnter; split
  · eupd (sdBody_e _ _ _ _)
  · exact setPc_e _ _ _
theorem armSdPrepared_e (s : Sys) (t o k) : ESame s (armSdPrepared s t o k) := by
  unfold armSdPrepared; split
  · epeel (setPc_e _ _ _)
    apply foldl_e
    intro s i
    exact ESame.congr_left (spawn_e _ _ (by intro i h; cases h)) (by esame)
  · exact sdSeqNext_e _ _ _ _

theorem armStopperBegin_e (s : Sys) (t i) : ESame s (armStopperBegin s t i) := by
  unfold armStopperBegin
  simp only
  epeel (setPc_e _ _ _)
  apply foldl_e
  intro s j
  exact ESame.congr_left (spawn_e _ _ (by intro i h; cases h)) (by esame)

theorem stepStopper_e (s : Sys) (t i pc) : ESame s (stepStopper s t i pc) := by
  cases pc <;> simp only [stepStopper] <;>
    first | exact ESame.refl _ | exact armStopperBegin_e _ _ _ | exact gotoStop_e _ _ _ _ _
          | (epeel (setPc_e _ _ _); done_e)
theorem stepWaiter_e (s : Sys) (t i pc) : ESame s (stepWaiter s t i pc) := by
  cases pc <;> simp only [stepWaiter] <;>
    first | exact ESame.refl _ | exact setPc_e _ _ _ | (epeel (setPc_e _ _ _); done_e)
theorem stepDepwaiter_e (s : Sys) (t o i pc) : ESame s (stepDepwaiter s t o i pc) := by
  cases pc <;> simp only [stepDepwaiter] <;>
    first | exact ESame.refl _ | exact setPc_e _ _ _ | (epeel (setPc_e _ _ _); done_e)

theorem armApiBegin_e (s : Sys) (t h op) : ESame s (armApiBegin s t h op) := by
  unfold armApiBegin
  cases op <;> simp only <;> first
    | exact setPc_e _ _ _
    | (split
       · exact apiFirst_e _ _ _ _
       · exact setPc_e _ _ _)
theorem armSpawnOrLock_e (s : Sys) (t n) : ESame s (armSpawnOrLock s t n) := by
  unfold armSpawnOrLock; split
  · split
    · exact apiSpawn_e _ _ _
    · exact setPc_e _ _ _
  · exact apiRet_e _ _ _
theorem stepApi_e (s : Sys) (t h op pc) : ESame s (stepApi s t h op pc) := by
  cases pc <;> simp only [stepApi] <;>
    first | exact ESame.refl _ | exact setPc_e _ _ _ | exact armApiBegin_e _ _ _ _ | exact apiFirst_e _ _ _ _
          | exact armSpawnOrLock_e _ _ _ | exact apiSpawn_e _ _ _
          | exact (emit_e _ _).then (setPc_e _ _ _)
theorem armProbeBegin_e (s : Sys) (t n) : ESame s (armProbeBegin s t n) := by
  unfold armProbeBegin; split
  · exact setPc_e _ _ _
  · split
    · exact setPc_e _ _ _
    · exact (setPs_e _ _ _).then (gotoStop_e _ _ _ _ _)

/-- **Every thread step other than the two trigger arms leaves the exit-code cells alone.** -/
theorem stepThread_e (s : Sys) (t : Tid) (h : Hints)
    (hns : ¬ ((s.thr t).kind.isProc = true ∧ ((s.thr t).pc = .procSkipped ∨ ∃ c, (s.thr t).pc = .procDoneAdded c))) :
    ESame s (stepThread s t h) := by
  unfold stepThread
  simp only
  split
  · exact armStopEnter_e _ _ _ _ _
  · exact armStopNotRunning_e _ _ _ _
  · exact armStopChecked_e _ _ _ _ _
  · exact armStopMarked_e _ _ _ _ _
  · exact armStopWaitKill_e _ _ _ _
  · exact armSdEnter_e _ _ _ _
  · eupd (sdBody_e _ _ _ _)
  · exact armSdPrepared_e _ _ _ _
  · exact sdReturn_e _ _ _
  · split
    · rename_i i hk
      exact stepProc_e _ _ _ _ _ (fun hp => hns ⟨by rw [hk]; rfl, Or.inl hp⟩)
        (fun c hp => hns ⟨by rw [hk]; rfl, Or.inr ⟨c, hp⟩⟩)
    · exact stepApi_e _ _ _ _ _
    · exact stepStopper_e _ _ _ _
    · exact stepWaiter_e _ _ _ _
    · exact stepDepwaiter_e _ _ _ _ _
    · split
      · exact armProbeBegin_e _ _ _
      · exact ESame.refl _
    · split
      · exact (setInst_e _ _ _ (by inst_le)).then (setPc_e _ _ _)
      · exact ESame.refl _

end PC.Sup
