import PC.Proofs.SupArms
/-! `Quiet`: what every thread step does *not* do, except the two arms of the ordered shutdown that
    handle the stopper's wait group — it leaves the wait groups alone and creates no `depwaiter`
    thread. The per-arm lemmas follow the structure of the `SysLe` lemmas in `SupInsts`. -/
namespace PC.Sup

def Kind.isDw : Kind → Bool
  | .depwaiter _ _ => true
  | _ => false

structure Quiet (s s' : Sys) : Prop where
  depWg : s'.depWg = s.depWg
  tlen : s.threads.length ≤ s'.threads.length
  kinds : ∀ u, u < s.threads.length → (s'.thr u).kind = (s.thr u).kind
  nodw : ∀ u, s.threads.length ≤ u → u < s'.threads.length → (s'.thr u).kind.isDw = false

theorem Quiet.refl (s : Sys) : Quiet s s := ⟨rfl, Nat.le_refl _, fun _ _ => rfl, fun u h1 h2 => absurd h2 (by omega)⟩

theorem Quiet.trans {a b c : Sys} (h1 : Quiet a b) (h2 : Quiet b c) : Quiet a c where
  depWg := h2.depWg.trans h1.depWg
  tlen := Nat.le_trans h1.tlen h2.tlen
  kinds := fun u hu => (h2.kinds u (Nat.lt_of_lt_of_le hu h1.tlen)).trans (h1.kinds u hu)
  nodw := fun u hu hc => by
    by_cases hb : u < b.threads.length
    · rw [h2.kinds u hb]; exact h1.nodw u hu hb
    · exact h2.nodw u (Nat.le_of_not_lt hb) hc

structure QSame (s s' : Sys) : Prop where
  depWg : s'.depWg = s.depWg
  threads : s'.threads = s.threads

theorem Quiet.of_same {s s' : Sys} (h : QSame s s') : Quiet s s' := by
  refine ⟨h.depWg, by rw [h.threads]; exact Nat.le_refl _, fun u _ => ?_, fun u h1 h2 => absurd h2 (by rw [h.threads]; omega)⟩
  unfold Sys.thr; rw [h.threads]

macro "qsame" : tactic => `(tactic| exact ⟨rfl, rfl⟩)

theorem setInst_q (s : Sys) (i : IId) (f : Inst → Inst) (_hf : ∀ x, Inst.Le x (f x)) : Quiet s (s.setInst i f) :=
  Quiet.of_same (by qsame)
theorem setPs_q (s : Sys) (n f) : Quiet s (s.setPs n f) := Quiet.of_same (by qsame)
theorem emit_q (s : Sys) (o) : Quiet s (s.emit o) := Quiet.of_same (by qsame)
theorem note_q (s : Sys) (e : GateEv) (_he : ∀ i d c, e ≠ .passed i d c) : Quiet s (s.note e) := Quiet.of_same (by qsame)
theorem notePassed_q (s : Sys) (i d : IId) (c : Cond) : Quiet s (s.notePassed i d c) := by
  unfold Sys.notePassed; split
  · exact Quiet.of_same (by qsame)
  · exact Quiet.refl _

theorem setPc_q (s : Sys) (t pc) : Quiet s (s.setPc t pc) := by
  refine ⟨rfl, by simp [Sys.setPc], fun u _ => ?_, fun u h1 h2 => absurd h2 (by simp [Sys.setPc]; omega)⟩
  by_cases h : u = t
  · subst h; exact thr_setPc_kind s u pc
  · rw [thr_setPc_ne s t u pc h]

theorem spawn_q (s : Sys) (k : Kind) (hk : k.isDw = false) : Quiet s (s.spawn k) := by
  refine ⟨rfl, by simp [Sys.spawn], fun u hu => ?_, fun u h1 h2 => ?_⟩
  · unfold Sys.thr Sys.spawn
    simp [List.getD_eq_getElem?_getD, List.getElem?_append_left hu]
  · have : u = s.threads.length := by simp [Sys.spawn] at h2; omega
    subst this
    have e : (s.spawn k).thr s.threads.length = { kind := k } := by
      unfold Sys.thr Sys.spawn
      simp [List.getD_eq_getElem?_getD]
    rw [e]; exact hk

theorem Quiet.then {a b c : Sys} (h1 : Quiet a b) (h2 : Quiet b c) : Quiet a c := h1.trans h2
theorem Quiet.congr_left {s0 s s' : Sys} (h : Quiet s s') (e : QSame s0 s) : Quiet s0 s' := (Quiet.of_same e).trans h
theorem Quiet.congr {s s' s'' : Sys} (h : Quiet s s') (e : QSame s' s'') : Quiet s s'' := h.trans (Quiet.of_same e)

macro "qpeel " t:term : tactic => `(tactic| refine Quiet.trans ?_ $t)
macro "qupd " t:term : tactic => `(tactic| exact Quiet.congr_left $t (by qsame))
macro "done_q" : tactic => `(tactic| first | exact Quiet.refl _ | exact Quiet.of_same (by qsame))

/-! ### helpers -/

theorem setState_q (s : Sys) (i st) : Quiet s (setState s i st) := by
  unfold setState
  simp only
  cases st <;> simp only <;>
    first
    | exact (setPs_q _ _ _).then (emit_q _ _)
    | exact ((setPs_q _ _ _).then (emit_q _ _)).then (setPs_q _ _ _)
    | exact (((setPs_q _ _ _).then (emit_q _ _)).then (setPs_q _ _ _)).then (emit_q _ _)

theorem setExit_q (s : Sys) (n c) : Quiet s (setExit s n c) := by
  unfold setExit; exact (setPs_q _ _ _).then (emit_q _ _)

theorem recordExit_q (s : Sys) (c) : Quiet s (recordExit s c) := by
  unfold recordExit
  split
  · exact Quiet.refl _
  · rename_i h
    qpeel (emit_q _ _)
    exact Quiet.of_same (by qsame)

theorem onProcessEnd_q (s : Sys) (i st) : Quiet s (onProcessEnd s i st) := by
  unfold onProcessEnd
  exact ((setInst_q s i endInst endInst_le).then (setState_q _ _ _)).then (emit_q _ _)

theorem cmdExit_q (s : Sys) (i c) : Quiet s (cmdExit s i c) := setInst_q _ _ _ (by inst_le)

theorem cmdStop_q (s : Sys) (i sig) : Quiet s (cmdStop s i sig) := by
  unfold cmdStop
  simp only
  split
  · split
    · exact (emit_q _ _).then (cmdExit_q _ _ _)
    · split
      · exact (emit_q _ _).then (cmdExit_q _ _ _)
      · exact emit_q _ _
  · exact emit_q _ _

theorem decideRestart_q (s : Sys) (i) : Quiet s (decideRestart s i).2 := setInst_q _ _ _ (by inst_le)

theorem append_q (s : Sys) (x : Inst) (_hx : EndedI x) : Quiet s { s with insts := s.insts ++ [x] } :=
  Quiet.of_same (by qsame)

theorem spawnProc_q (s : Sys) (n) : Quiet s (spawnProc s n) := by
  unfold spawnProc newInst
  simp only
  qpeel (spawn_q _ _ rfl)
  have h1 : Quiet s ({ s with insts := s.insts ++ [{ name := n, seq := (s.insts.filter (·.name = n)).length + 1 }] } : Sys) :=
    append_q s _ (by intro h; simp at h)
  exact (h1.then (setState_q _ _ _)).congr (by qsame)

theorem gotoCleanup_q (s : Sys) (t) : Quiet s (gotoCleanup s t) := by
  unfold gotoCleanup; qpeel (setPc_q _ _ _); done_q

theorem gotoStop_q (s : Sys) (t i cr k) : Quiet s (gotoStop s t i cr k) := by
  unfold gotoStop
  exact (setInst_q _ _ _ (by inst_le)).then (setPc_q _ _ _)

theorem apiRet_q (s : Sys) (t r) : Quiet s (apiRet s t r) := by
  unfold apiRet; split
  · exact (emit_q _ _).then (setPc_q _ _ _)
  all_goals exact setPc_q _ _ _

theorem apiSpawn_q (s : Sys) (t n) : Quiet s (apiSpawn s t n) := by
  unfold apiSpawn
  simp only
  split
  · qpeel (setPc_q _ _ _); qpeel (emit_q _ _); exact spawnProc_q _ _
  all_goals (qpeel (setPc_q _ _ _); exact spawnProc_q _ _)

theorem addDone_q (s : Sys) (i : IId) : Quiet s (addDone s i) := by
  unfold addDone; done_q
theorem doSkip_q (s : Sys) (t i) : Quiet s (doSkip s t i) := by
  unfold doSkip; exact (addDone_q _ _).then ((onProcessEnd_q _ _ _).then (setPc_q _ _ _))

theorem afterDeps_q (s : Sys) (t) : Quiet s (afterDeps s t) := setPc_q _ _ _

theorem lookupRunning_q (s : Sys) (t i k c r) : Quiet s (lookupRunning s t i k c r) := by
  unfold lookupRunning; split
  · exact ((note_q _ _ (by intro _ _ _ h; cases h)).then (emit_q _ _)).then (setPc_q _ _ _)
  · exact ((note_q _ _ (by intro _ _ _ h; cases h)).then (emit_q _ _)).then (setPc_q _ _ _)

theorem depStep_q (s : Sys) (t i h r) : Quiet s (depStep s t i h r) := by
  unfold depStep
  split
  · exact afterDeps_q _ _
  · simp only
    split
    · exact (((emit_q _ _).then (note_q _ _ (by intro _ _ _ h; cases h))).then (emit_q _ _)).then (setPc_q _ _ _)
    · split
      · exact (emit_q _ _).then (lookupRunning_q _ _ _ _ _ _)
      · exact (emit_q _ _).then (setPc_q _ _ _)

theorem doLaunch_q (s : Sys) (t i) : Quiet s (doLaunch s t i) := by
  unfold doLaunch
  simp only
  split
  · qpeel (setPc_q _ _ _)
    qpeel (onProcessEnd_q _ _ _)
    qpeel (setExit_q _ _ _)
    qpeel (emit_q _ _)
    exact setState_q _ _ _
  · qpeel (setPc_q _ _ _)
    have key : Quiet s
        (({ (setState s i .running).emit (.launch ((setState s i .running).nameOf i)) with
            launchClock := ((setState s i .running).emit (.launch ((setState s i .running).nameOf i))).launchClock + 1 } : Sys).setInst i
          fun x => { x with cmd := .alive, launches := x.launches + 1,
                            launchedAt := ((setState s i .running).emit (.launch ((setState s i .running).nameOf i))).launchClock + 1 }) := by
      qpeel (setInst_q _ _ _ (by inst_le))
      have hE : Quiet s ((setState s i .running).emit (.launch ((setState s i .running).nameOf i))) :=
        (setState_q s i .running).then (emit_q _ _)
      exact hE.congr (by qsame)
    split
    · exact key.trans (spawn_q _ _ rfl)
    · exact key

theorem foldl_q {α : Type} (f : Sys → α → Sys) (hf : ∀ s a, Quiet s (f s a)) (l : List α) (s : Sys) :
    Quiet s (l.foldl f s) := by
  induction l generalizing s with
  | nil => exact Quiet.refl _
  | cons a l ih => exact (hf s a).then (ih _)

theorem sdBody_q (s : Sys) (t h k) : Quiet s (sdBody s t h k) := by
  unfold sdBody
  simp only
  qpeel (setPc_q _ _ _)
  qupd (foldl_q _ (fun s i => setInst_q _ _ _ (by inst_le)) _ _)

theorem sdSeqNext_q (s : Sys) (t r k) : Quiet s (sdSeqNext s t r k) := by
  unfold sdSeqNext; split
  · exact setPc_q _ _ _
  · exact gotoStop_q _ _ _ _ _

theorem sdReturn_q (s : Sys) (t k) : Quiet s (sdReturn s t k) := by
  unfold sdReturn
  simp only
  split
  · split
    · qpeel (setPc_q _ _ _); qpeel (emit_q _ _); qpeel (emit_q _ _); done_q
    all_goals (qpeel (setPc_q _ _ _); qpeel (emit_q _ _); done_q)
  · qpeel (gotoCleanup_q _ _); qpeel (emit_q _ _); done_q
  · qpeel (gotoCleanup_q _ _); qpeel (emit_q _ _); done_q

theorem stopReturn_q (s : Sys) (t k) : Quiet s (stopReturn s t k) := by
  unfold stopReturn
  split
  · split
    · exact (emit_q _ _).then (setPc_q _ _ _)
    all_goals exact setPc_q _ _ _
  · exact setPc_q _ _ _
  · qpeel (sdSeqNext_q _ _ _ _)
    qupd (spawn_q _ _ rfl)
  · exact setPc_q _ _ _
  · exact setPc_q _ _ _

theorem apiFirst_q (s : Sys) (t h op) : Quiet s (apiFirst s t h op) := by
  unfold apiFirst
  cases op with
  | start n => simp only; split <;> first | exact apiRet_q _ _ _ | exact setPc_q _ _ _
  | stop n =>
    simp only; split
    · exact (setInst_q _ _ _ (by inst_le)).then (gotoStop_q _ _ _ _ _)
    · split <;> exact apiRet_q _ _ _
  | restart n =>
    simp only; split
    · exact (setInst_q _ _ _ (by inst_le)).then (gotoStop_q _ _ _ _ _)
    · split
      · exact setPc_q _ _ _
      · exact apiRet_q _ _ _
  | state n => simp only; split <;> exact apiRet_q _ _ _
  | shutdown => exact setPc_q _ _ _
  | runMain =>
    simp only
    qpeel (setPc_q _ _ _)
    qupd (foldl_q _ spawnProc_q _ _)

/-! ### the arms -/

theorem armDepLookup_q (s : Sys) (t d c r) : Quiet s (armDepLookup s t d c r) := by
  unfold armDepLookup; cases c <;> exact setPc_q _ _ _
theorem armWaitDone_q (s : Sys) (t i d ok r) : Quiet s (armWaitDone s t i d ok r) := by
  unfold armWaitDone; split
  · exact doSkip_q _ _ _
  · exact (notePassed_q _ _ _ _).then (setPc_q _ _ _)
theorem armWaitReady_q (s : Sys) (t i d r) : Quiet s (armWaitReady s t i d r) := by
  unfold armWaitReady; split
  · exact (notePassed_q _ _ _ _).then (setPc_q _ _ _)
  · exact doSkip_q _ _ _
theorem armWaitLogReady_q (s : Sys) (t i d r) : Quiet s (armWaitLogReady s t i d r) := by
  unfold armWaitLogReady; split
  · exact (notePassed_q _ _ _ _).then (setPc_q _ _ _)
  · exact doSkip_q _ _ _
theorem armProcSkipped_q (s : Sys) (t i) : Quiet s (armProcSkipped s t i) := by
  unfold armProcSkipped; split
  · exact (recordExit_q _ _).then (setPc_q _ _ _)
  · exact gotoCleanup_q _ _
theorem armRunEnter_q (s : Sys) (t i) : Quiet s (armRunEnter s t i) := by
  unfold armRunEnter; split
  · exact (onProcessEnd_q _ _ _).then (setPc_q _ _ _)
  · exact setPc_q _ _ _
theorem armRunChecked_q (s : Sys) (t i) : Quiet s (armRunChecked s t i) := by
  unfold armRunChecked; split
  · exact ((setExit_q _ _ _).then (onProcessEnd_q _ _ _)).then (setPc_q _ _ _)
  · exact ((setInst_q _ _ _ (by inst_le)).then (emit_q _ _)).then (doLaunch_q _ _ _)
theorem armCmdWait_q (s : Sys) (t i) : Quiet s (armCmdWait s t i) := by
  unfold armCmdWait; split
  · exact (setExit_q _ _ _).then (setPc_q _ _ _)
  · exact Quiet.refl _
theorem armRunExited_q (s : Sys) (t i) : Quiet s (armRunExited s t i) := by
  unfold armRunExited
  simp only
  refine (decideRestart_q s i).then ?_
  split
  · exact (((setState_q _ _ _).then (setPs_q _ _ _)).then (emit_q _ _)).then (setPc_q _ _ _)
  · exact (onProcessEnd_q _ _ _).then (setPc_q _ _ _)
theorem armBackoff_q (s : Sys) (t i) : Quiet s (armBackoff s t i) := by
  unfold armBackoff; split
  · exact (onProcessEnd_q _ _ _).then (setPc_q _ _ _)
  · exact setPc_q _ _ _
theorem armProcRan_q (s : Sys) (t i c) : Quiet s (armProcRan s t i c) := by
  unfold armProcRan; qpeel (setPc_q _ _ _); done_q
theorem armProcDoneAdded_q (s : Sys) (t i c) : Quiet s (armProcDoneAdded s t i c) := by
  unfold armProcDoneAdded; simp only; split
  · exact (recordExit_q _ _).then (setPc_q _ _ _)
  · exact gotoCleanup_q _ _
theorem armLockCleanup_q (s : Sys) (t i) : Quiet s (armLockCleanup s t i) := by
  unfold armLockCleanup; split
  · qpeel (setPc_q _ _ _); done_q
  · exact setPc_q _ _ _

theorem stepProc_q (s : Sys) (t i h pc) : Quiet s (stepProc s t i h pc) := by
  cases pc <;> simp only [stepProc] <;>
    first
    | exact Quiet.refl _
    | exact setPc_q _ _ _
    | exact (notePassed_q _ _ _ _).then (setPc_q _ _ _)
    | exact depStep_q _ _ _ _ _
    | exact lookupRunning_q _ _ _ _ _ _
    | exact armDepLookup_q _ _ _ _ _
    | exact armWaitDone_q _ _ _ _ _ _
    | exact armWaitReady_q _ _ _ _ _
    | exact armWaitLogReady_q _ _ _ _ _
    | exact armProcSkipped_q _ _ _
    | exact armRunEnter_q _ _ _
    | exact armRunChecked_q _ _ _
    | exact armCmdWait_q _ _ _
    | exact armRunExited_q _ _ _
    | exact armBackoff_q _ _ _
    | exact doLaunch_q _ _ _
    | exact armProcRan_q _ _ _ _
    | exact armProcDoneAdded_q _ _ _ _
    | exact armLockCleanup_q _ _ _

theorem armStopEnter_q (s : Sys) (t i cr k) : Quiet s (armStopEnter s t i cr k) := by
  unfold armStopEnter; split <;> exact setPc_q _ _ _
theorem armStopNotRunning_q (s : Sys) (t i k) : Quiet s (armStopNotRunning s t i k) := by
  unfold armStopNotRunning; simp only; split
  · exact (onProcessEnd_q _ _ _).then (stopReturn_q _ _ _)
  · exact stopReturn_q _ _ _
theorem armStopChecked_q (s : Sys) (t i cr k) : Quiet s (armStopChecked s t i cr k) := by
  unfold armStopChecked; exact (setState_q _ _ _).then (setPc_q _ _ _)

theorem stopMarkedPrep_q (s : Sys) (i cr) : Quiet s (stopMarkedPrep s i cr) := by
  unfold stopMarkedPrep
  apply setInst_q
  intro x
  refine ⟨rfl, rfl, id, id, ?_, id, ?_, ?_⟩
  · intro h; simp [h]
  · intro h; simp [h]
  · intro h1 h2; simp_all

theorem armStopMarked_q (s : Sys) (t i cr k) : Quiet s (armStopMarked s t i cr k) := by
  unfold armStopMarked
  simp only
  split
  · qpeel (stopReturn_q _ _ _)
    exact stopMarkedPrep_q _ _ _
  · split
    · qpeel (setPc_q _ _ _)
      qpeel (setInst_q _ _ _ (by inst_le))
      qpeel (cmdStop_q _ _ _)
      exact stopMarkedPrep_q _ _ _
    · qpeel (stopReturn_q _ _ _)
      qpeel (cmdStop_q _ _ _)
      exact stopMarkedPrep_q _ _ _
theorem armStopWaitKill_q (s : Sys) (t i k) : Quiet s (armStopWaitKill s t i k) := by
  unfold armStopWaitKill; split
  · exact (cmdStop_q _ _ _).then (stopReturn_q _ _ _)
  · exact stopReturn_q _ _ _

theorem armSdEnter_q (s : Sys) (t h k) : Quiet s (armSdEnter s t h k) := by
  unfold armSdEnter; split
  · qupd (sdBody_q _ _ _ _)
  · exact setPc_q _ _ _
theorem armSdPrepared_q (s : Sys) (t o k) : Quiet s (armSdPrepared s t o k) := by
  unfold armSdPrepared; split
  · qpeel (setPc_q _ _ _)
    apply foldl_q
    intro s i
    exact Quiet.congr_left (spawn_q _ _ rfl) (by qsame)
  · exact sdSeqNext_q _ _ _ _

theorem stepStopper_q (s : Sys) (t i pc) (hpc : pc ≠ .begin) : Quiet s (stepStopper s t i pc) := by
  cases pc <;> simp only [stepStopper] <;>
    first | exact absurd rfl hpc | exact Quiet.refl _ | exact gotoStop_q _ _ _ _ _
          | (qpeel (setPc_q _ _ _); done_q)
theorem stepWaiter_q (s : Sys) (t i pc) : Quiet s (stepWaiter s t i pc) := by
  cases pc <;> simp only [stepWaiter] <;>
    first | exact Quiet.refl _ | exact setPc_q _ _ _ | (qpeel (setPc_q _ _ _); done_q)
theorem stepDepwaiter_q (s : Sys) (t o i pc) (hpc : ∀ j, pc ≠ .waitDoneThen j) : Quiet s (stepDepwaiter s t o i pc) := by
  cases pc <;> simp only [stepDepwaiter] <;>
    first | exact absurd rfl (hpc _) | exact Quiet.refl _ | exact setPc_q _ _ _

theorem armApiBegin_q (s : Sys) (t h op) : Quiet s (armApiBegin s t h op) := by
  unfold armApiBegin
  cases op <;> simp only <;> first
    | exact setPc_q _ _ _
    | (split
       · exact apiFirst_q _ _ _ _
       · exact setPc_q _ _ _)
theorem armSpawnOrLock_q (s : Sys) (t n) : Quiet s (armSpawnOrLock s t n) := by
  unfold armSpawnOrLock; split
  · split
    · exact apiSpawn_q _ _ _
    · exact setPc_q _ _ _
  · exact apiRet_q _ _ _
theorem stepApi_q (s : Sys) (t h op pc) : Quiet s (stepApi s t h op pc) := by
  cases pc <;> simp only [stepApi] <;>
    first | exact Quiet.refl _ | exact setPc_q _ _ _ | exact armApiBegin_q _ _ _ _ | exact apiFirst_q _ _ _ _
          | exact armSpawnOrLock_q _ _ _ | exact apiSpawn_q _ _ _
          | exact (emit_q _ _).then (setPc_q _ _ _)
theorem armProbeBegin_q (s : Sys) (t n) : Quiet s (armProbeBegin s t n) := by
  unfold armProbeBegin; split
  · exact setPc_q _ _ _
  · split
    · exact setPc_q _ _ _
    · exact (setPs_q _ _ _).then (gotoStop_q _ _ _ _ _)

/-- the two arms that handle a stopper's wait group -/
def Special (s : Sys) (t : Tid) : Prop :=
  (∃ i, (s.thr t).kind = .stopper i ∧ (s.thr t).pc = .begin) ∨
  (∃ o i j, (s.thr t).kind = .depwaiter o i ∧ (s.thr t).pc = .waitDoneThen j)

/-- **Every thread step other than those two arms is quiet.** -/
theorem stepThread_q (s : Sys) (t : Tid) (h : Hints) (hns : ¬ Special s t) : Quiet s (stepThread s t h) := by
  unfold stepThread
  simp only
  split
  · exact armStopEnter_q _ _ _ _ _
  · exact armStopNotRunning_q _ _ _ _
  · exact armStopChecked_q _ _ _ _ _
  · exact armStopMarked_q _ _ _ _ _
  · exact armStopWaitKill_q _ _ _ _
  · exact armSdEnter_q _ _ _ _
  · qupd (sdBody_q _ _ _ _)
  · exact armSdPrepared_q _ _ _ _
  · exact sdReturn_q _ _ _
  · split
    · exact stepProc_q _ _ _ _ _
    · exact stepApi_q _ _ _ _ _
    · rename_i hk
      exact stepStopper_q _ _ _ _ (fun hp => hns (Or.inl ⟨_, hk, hp⟩))
    · exact stepWaiter_q _ _ _ _
    · rename_i hk
      exact stepDepwaiter_q _ _ _ _ _ (fun j hp => hns (Or.inr ⟨_, _, j, hk, hp⟩))
    · split
      · exact armProbeBegin_q _ _ _
      · exact Quiet.refl _
    · split
      · exact (setInst_q _ _ _ (by inst_le)).then (setPc_q _ _ _)
      · exact Quiet.refl _

end PC.Sup
