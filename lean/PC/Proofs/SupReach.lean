import PC.Proofs.SupInsts
/-! Reachability in `Sup` and the invariants that follow from `step_le`. -/
namespace PC.Sup

/-- `Reach s0 s`: `s` is reachable from `s0` by any sequence of thread steps and external events,
    with any resolution of the map-iteration nondeterminism (`Hints`). -/
inductive Reach (s0 : Sys) : Sys → Prop
  | init : Reach s0 s0
  | step {s : Sys} (c : Choice) (h : Hints) : Reach s0 s → Reach s0 (step s c h)

theorem Reach.trans {a b c : Sys} (h1 : Reach a b) (h2 : Reach b c) : Reach a c := by
  induction h2 with
  | init => exact h1
  | step c h _ ih => exact Reach.step c h ih

/-- the part of `SysLe` that does not mention a thread composes along executions -/
structure Fwd (s s' : Sys) : Prop where
  len : s.insts.length ≤ s'.insts.length
  old : ∀ i, i < s.insts.length → Inst.Le (s.inst i) (s'.inst i)
  new : ∀ i, s.insts.length ≤ i → i < s'.insts.length → EndedI (s'.inst i)
  tlen : s.threads.length ≤ s'.threads.length
  exit : s.exitCodeSet = true → s'.exitCodeSet = true ∧ s'.exitCode = s.exitCode
  cfgs : s'.cfgs = s.cfgs
  gran : s'.gran = s.gran
  ordered : s'.ordered = s.ordered

theorem SysLe.fwd {t : Tid} {s s' : Sys} (h : SysLe t s s') : Fwd s s' :=
  ⟨h.len, h.old, h.new, h.tlen, h.exit, h.cfgs, h.gran, h.ordered⟩

theorem Fwd.refl (s : Sys) : Fwd s s := (SysLe.refl (t := 0) s).fwd

theorem Fwd.trans {a b c : Sys} (h1 : Fwd a b) (h2 : Fwd b c) : Fwd a c where
  len := Nat.le_trans h1.len h2.len
  old := fun i hi => (h1.old i hi).trans (h2.old i (Nat.lt_of_lt_of_le hi h1.len))
  new := fun i hi hc => by
    by_cases hb : i < b.insts.length
    · have e := h1.new i hi hb
      have l := h2.old i hb
      intro hd
      cases hbd : (b.inst i).done with
      | false => exact l.ended hd hbd
      | true =>
        obtain ⟨r1, r2, r3⟩ := e hbd
        refine ⟨l.readyDone r1, l.runCancelled r2, ?_⟩
        rw [l.logReady r3]; exact r3
    · exact h2.new i (by omega) hc
  tlen := Nat.le_trans h1.tlen h2.tlen
  exit := fun h => by
    obtain ⟨e1, e2⟩ := h1.exit h
    obtain ⟨e3, e4⟩ := h2.exit e1
    exact ⟨e3, e4.trans e2⟩
  cfgs := h2.cfgs.trans h1.cfgs
  gran := h2.gran.trans h1.gran
  ordered := h2.ordered.trans h1.ordered

/-- **Along every execution the system only moves forward.** -/
theorem reach_fwd {s0 s : Sys} (h : Reach s0 s) : Fwd s0 s := by
  induction h with
  | init => exact Fwd.refl _
  | step c hh _ ih => exact ih.trans (step_le _ c hh).fwd

/-- the default record (out-of-range index) has no latch set -/
theorem inst_default (s : Sys) (i : IId) (h : s.insts.length ≤ i) :
    s.inst i = { name := 0, seq := 0 } := by
  unfold Sys.inst
  simp [List.getD_eq_getElem?_getD, List.getElem?_eq_none h]

/-- **Ended ⇒ released, in every reachable state** (fix F5): an instance that is done has its
    ready, log-ready and started/run latches released, so nobody can wait on it forever. -/
theorem reach_ended {s0 s : Sys} (h0 : ∀ i, EndedI (s0.inst i)) (h : Reach s0 s) : ∀ i, EndedI (s.inst i) := by
  intro i
  have f := reach_fwd h
  by_cases h1 : i < s0.insts.length
  · have l := f.old i h1
    intro hd
    cases hb : (s0.inst i).done with
    | false => exact l.ended hd hb
    | true =>
      obtain ⟨r1, r2, r3⟩ := h0 i hb
      refine ⟨l.readyDone r1, l.runCancelled r2, ?_⟩
      rw [l.logReady r3]; exact r3
  · by_cases h2 : i < s.insts.length
    · exact f.new i (Nat.le_of_not_lt h1) h2
    · rw [inst_default s i (Nat.le_of_not_lt h2)]
      intro hd; simp at hd

theorem init_ended (g : Gran) (o : Bool) (cfgs : List Cfg) : ∀ i, EndedI ((init g o cfgs).inst i) := by
  intro i
  rw [inst_default _ i (by simp [init])]
  intro hd; simp at hd

/-- the latch-wait labels and the instance they wait on -/
def Pc.latchWait : Pc → Option IId
  | .waitDone d _ _ | .waitReady d _ | .waitLogReady d _ | .waitStarted d _ | .waitDoneThen d => some d
  | _ => none

/-- A latch wait on an instance that has ended is enabled (in every reachable state). -/
theorem wait_on_ended_enabled {s0 s : Sys} (h0 : ∀ i, EndedI (s0.inst i)) (h : Reach s0 s)
    (u : Tid) (d : IId) (hw : (s.thr u).pc.latchWait = some d) (hd : (s.inst d).done = true) :
    enabledThr s u = true := by
  obtain ⟨r1, r2, r3⟩ := reach_ended h0 h d hd
  unfold enabledThr
  cases hpc : (s.thr u).pc <;> simp [hpc, Pc.latchWait] at hw ⊢ <;> subst hw <;> simp_all

/-- **No lost wake-up.** A thread parked at a latch wait that is enabled stays parked there and stays
    enabled across any step of another thread and any external event. -/
theorem no_lost_wakeup (s : Sys) (c : Choice) (h : Hints) (u : Tid) (d : IId)
    (hu : u < s.threads.length) (hne : u ≠ c.tid s)
    (hw : (s.thr u).pc.latchWait = some d) (he : enabledThr s u = true) :
    (step s c h).thr u = s.thr u ∧ enabledThr (step s c h) u = true := by
  have l := step_le s c h
  have e := l.tframe u hu hne
  refine ⟨e, ?_⟩
  -- the latch was set (the default record has none), so `d` is an existing instance
  have hd : d < s.insts.length := by
    by_cases hd : d < s.insts.length
    · exact hd
    · exfalso
      have dflt := inst_default s d (Nat.le_of_not_lt hd)
      unfold enabledThr at he
      cases hpc : (s.thr u).pc <;> simp [hpc, Pc.latchWait] at hw he <;> subst hw <;> simp [dflt] at he
  have m := l.old d hd
  unfold enabledThr at he ⊢
  rw [e]
  cases hpc : (s.thr u).pc <;> simp [hpc, Pc.latchWait] at hw he ⊢ <;> subst hw
  · exact m.done he
  · exact m.readyDone he
  · rw [m.logReady he]; exact he
  · rcases he with he | he
    · exact Or.inl (m.started he)
    · exact Or.inr (m.runCancelled he)
  · exact m.done he

end PC.Sup
