import PC.Proofs.SupRQ
/-! `NPass`: a thread step records no new `passed` event in the ghost gate log — except the four
    arms in which a process thread goes on after a wait (`waitDone`, `waitReady`, `waitLogReady`,
    `waitStarted`), and those record one only in the branch in which the declared condition is met
    in the state the thread woke up in (`Met`). Per-arm lemmas as in `SupRQ` (this file is that
    family re-stated for the gate log). -/
namespace PC.Sup

/-- no new `passed` event -/
def NPass (s s' : Sys) : Prop := ∀ i d c, GateEv.passed i d c ∈ s'.gate → GateEv.passed i d c ∈ s.gate

theorem NPass.refl (s : Sys) : NPass s s := fun _ _ _ h => h
theorem NPass.trans {a b c : Sys} (h1 : NPass a b) (h2 : NPass b c) : NPass a c :=
  fun i d k h => h1 i d k (h2 i d k h)

structure GSame (s s' : Sys) : Prop where
  gate : s'.gate = s.gate

theorem NPass.of_same {s s' : Sys} (h : GSame s s') : NPass s s' := fun i d c hm => by rw [← h.gate]; exact hm

macro "npsame" : tactic => `(tactic| exact ⟨rfl⟩)

theorem setInst_np (s : Sys) (i : IId) (f : Inst → Inst) (_hf : ∀ x, Inst.Le x (f x)) : NPass s (s.setInst i f) :=
  NPass.of_same (by npsame)
theorem emit_np (s : Sys) (o) : NPass s (s.emit o) := NPass.of_same (by npsame)
theorem note_np (s : Sys) (e : GateEv) (he : ∀ i d c, e ≠ .passed i d c) : NPass s (s.note e) := by
  intro i d c hm
  have hm' : GateEv.passed i d c ∈ e :: s.gate := hm
  rcases List.mem_cons.1 hm' with h | h
  · exact absurd h.symm (he i d c)
  · exact h
theorem setPc_np (s : Sys) (t pc) : NPass s (s.setPc t pc) := NPass.of_same (by npsame)
theorem spawn_np (s : Sys) (k) (_hk : ∀ i, k = .proc i → i < s.insts.length) : NPass s (s.spawn k) := NPass.of_same (by npsame)
theorem setPs_np (s : Sys) (n : Name) (f : PState → PState) : NPass s (s.setPs n f) := NPass.of_same (by npsame)

theorem NPass.then {a b c : Sys} (h1 : NPass a b) (h2 : NPass b c) : NPass a c := h1.trans h2
theorem NPass.congr_left {s0 s s' : Sys} (h : NPass s s') (e : GSame s0 s) : NPass s0 s' := (NPass.of_same e).trans h
theorem NPass.congr {s s' s'' : Sys} (h : NPass s s') (e : GSame s' s'') : NPass s s'' := h.trans (NPass.of_same e)

macro "nppeel " t:term : tactic => `(tactic| refine NPass.trans ?_ $t)
macro "npupd " t:term : tactic => `(tactic| exact NPass.congr_left $t (by npsame))
macro "done_np" : tactic => `(tactic| first | exact NPass.refl _ | exact NPass.of_same (by npsame))

/-! ### helpers -/

theorem setState_np (s : Sys) (i st) : NPass s (setState s i st) := by
  unfold setState
  simp only
  cases st <;> simp only <;>
    first
    | exact (setPs_np _ _ _).then (emit_np _ _)
    | exact ((setPs_np _ _ _).then (emit_np _ _)).then (setPs_np _ _ _)
    | exact (((setPs_np _ _ _).then (emit_np _ _)).then (setPs_np _ _ _)).then (emit_np _ _)

theorem setExit_np (s : Sys) (n c) : NPass s (setExit s n c) := by
  unfold setExit; exact (setPs_np _ _ _).then (emit_np _ _)

theorem recordExit_np (s : Sys) (c) : NPass s (recordExit s c) := by
  unfold recordExit
  split
  · exact NPass.refl _
  · nppeel (emit_np _ _)
    exact NPass.of_same (by npsame)

theorem onProcessEnd_np (s : Sys) (i st) : NPass s (onProcessEnd s i st) := by
  unfold onProcessEnd
  exact ((setInst_np s i endInst endInst_le).then (setState_np _ _ _)).then (emit_np _ _)

theorem cmdExit_np (s : Sys) (i c) : NPass s (cmdExit s i c) := setInst_np _ _ _ (by inst_le)

theorem cmdStop_np (s : Sys) (i sig) : NPass s (cmdStop s i sig) := by
  unfold cmdStop
  simp only
  split
  · split
    · exact (emit_np _ _).then (cmdExit_np _ _ _)
    · split
      · exact (emit_np _ _).then (cmdExit_np _ _ _)
      · exact emit_np _ _
  · exact emit_np _ _

theorem decideRestart_np (s : Sys) (i) : NPass s (decideRestart s i).2 := setInst_np _ _ _ (by inst_le)

theorem append_np (s : Sys) (x : Inst) (_hx : EndedI x) : NPass s { s with insts := s.insts ++ [x] } :=
  NPass.of_same (by npsame)

theorem spawnProc_np (s : Sys) (n) : NPass s (spawnProc s n) := by
  unfold spawnProc newInst
  simp only
  nppeel (spawn_np _ _ (by
    intro i h
    cases h
    have e : ∀ (st : Status) (s0 : Sys) (j : IId), (setState s0 j st).insts = s0.insts := by
      intro st s0 j; unfold setState; cases st <;> rfl
    simp [e]))
  have h1 : NPass s ({ s with insts := s.insts ++ [{ name := n, seq := (s.insts.filter (·.name = n)).length + 1 }] } : Sys) :=
    append_np s _ (by intro h; simp at h)
  exact (h1.then (setState_np _ _ _)).congr (by npsame)

theorem gotoCleanup_np (s : Sys) (t) : NPass s (gotoCleanup s t) := by
  unfold gotoCleanup; nppeel (setPc_np _ _ _); done_np

theorem gotoStop_np (s : Sys) (t i cr k) : NPass s (gotoStop s t i cr k) := by
  unfold gotoStop
  exact (setInst_np _ _ _ (by inst_le)).then (setPc_np _ _ _)

theorem apiRet_np (s : Sys) (t r) : NPass s (apiRet s t r) := by
  unfold apiRet; split
  · exact (emit_np _ _).then (setPc_np _ _ _)
  all_goals exact setPc_np _ _ _

theorem apiSpawn_np (s : Sys) (t n) : NPass s (apiSpawn s t n) := by
  unfold apiSpawn
  simp only
  split
  · nppeel (setPc_np _ _ _); nppeel (emit_np _ _); exact spawnProc_np _ _
  all_goals (nppeel (setPc_np _ _ _); exact spawnProc_np _ _)

theorem addDone_np (s : Sys) (i : IId) : NPass s (addDone s i) := by
  unfold addDone; done_np
theorem doSkip_np (s : Sys) (t i) : NPass s (doSkip s t i) := by
  unfold doSkip; exact (addDone_np _ _).then ((onProcessEnd_np _ _ _).then (setPc_np _ _ _))

theorem afterDeps_np (s : Sys) (t) : NPass s (afterDeps s t) := setPc_np _ _ _

theorem lookupRunning_np (s : Sys) (t i k c r) : NPass s (lookupRunning s t i k c r) := by
  unfold lookupRunning; split
  · exact ((note_np _ _ (by intro _ _ _ h; cases h)).then (emit_np _ _)).then (setPc_np _ _ _)
  · exact ((note_np _ _ (by intro _ _ _ h; cases h)).then (emit_np _ _)).then (setPc_np _ _ _)

theorem depStep_np (s : Sys) (t i h r) : NPass s (depStep s t i h r) := by
  unfold depStep
  split
  · exact afterDeps_np _ _
  · simp only
    split
    · exact (((emit_np _ _).then (note_np _ _ (by intro _ _ _ h; cases h))).then (emit_np _ _)).then (setPc_np _ _ _)
    · split
      · exact (emit_np _ _).then (lookupRunning_np _ _ _ _ _ _)
      · exact (emit_np _ _).then (setPc_np _ _ _)

theorem doLaunch_np (s : Sys) (t i) : NPass s (doLaunch s t i) := by
  unfold doLaunch
  simp only
  split
  · nppeel (setPc_np _ _ _)
    nppeel (onProcessEnd_np _ _ _)
    nppeel (setExit_np _ _ _)
    nppeel (emit_np _ _)
    exact setState_np _ _ _
  · nppeel (setPc_np _ _ _)
    have key : NPass s
        (({ (setState s i .running).emit (.launch ((setState s i .running).nameOf i)) with
            launchClock := ((setState s i .running).emit (.launch ((setState s i .running).nameOf i))).launchClock + 1 } : Sys).setInst i
          fun x => { x with cmd := .alive, launches := x.launches + 1,
                            launchedAt := ((setState s i .running).emit (.launch ((setState s i .running).nameOf i))).launchClock + 1 }) := by
      nppeel (setInst_np _ _ _ (by inst_le))
      have hE : NPass s ((setState s i .running).emit (.launch ((setState s i .running).nameOf i))) :=
        (setState_np s i .running).then (emit_np _ _)
      exact hE.congr (by npsame)
    split
    · exact key.trans (spawn_np _ _ (by intro i h; cases h))
    · exact key

theorem foldl_np {α : Type} (f : Sys → α → Sys) (hf : ∀ s a, NPass s (f s a)) (l : List α) (s : Sys) :
    NPass s (l.foldl f s) := by
  induction l generalizing s with
  | nil => exact NPass.refl _
  | cons a l ih => exact (hf s a).then (ih _)

theorem sdBody_np (s : Sys) (t h k) : NPass s (sdBody s t h k) := by
  unfold sdBody
  simp only
  nppeel (setPc_np _ _ _)
  npupd (foldl_np _ (fun s i => setInst_np _ _ _ (by inst_le)) _ _)

theorem sdSeqNext_np (s : Sys) (t r k) : NPass s (sdSeqNext s t r k) := by
  unfold sdSeqNext; split
  · exact setPc_np _ _ _
  · exact gotoStop_np _ _ _ _ _

theorem sdReturn_np (s : Sys) (t k) : NPass s (sdReturn s t k) := by
  unfold sdReturn
  simp only
  split
  · split
    · nppeel (setPc_np _ _ _); nppeel (emit_np _ _); nppeel (emit_np _ _); done_np
    all_goals (nppeel (setPc_np _ _ _); nppeel (emit_np _ _); done_np)
  · nppeel (gotoCleanup_np _ _); nppeel (emit_np _ _); done_np
  · nppeel (gotoCleanup_np _ _); nppeel (emit_np _ _); done_np

theorem stopReturn_np (s : Sys) (t k) : NPass s (stopReturn s t k) := by
  unfold stopReturn
  split
  · split
    · exact (emit_np _ _).then (setPc_np _ _ _)
    all_goals exact setPc_np _ _ _
  · exact setPc_np _ _ _
  · nppeel (sdSeqNext_np _ _ _ _)
    npupd (spawn_np _ _ (by intro i h; cases h))
  · exact setPc_np _ _ _
  · exact setPc_np _ _ _

theorem apiFirst_np (s : Sys) (t h op) : NPass s (apiFirst s t h op) := by
  unfold apiFirst
  cases op with
  | start n => simp only; split <;> first | exact apiRet_np _ _ _ | exact setPc_np _ _ _
  | stop n =>
    simp only; split
    · exact (setInst_np _ _ _ (by inst_le)).then (gotoStop_np _ _ _ _ _)
    · split <;> exact apiRet_np _ _ _
  | restart n =>
    simp only; split
    · exact (setInst_np _ _ _ (by inst_le)).then (gotoStop_np _ _ _ _ _)
    · split
      · exact setPc_np _ _ _
      · exact apiRet_np _ _ _
  | state n => simp only; split <;> exact apiRet_np _ _ _
  | shutdown => exact setPc_np _ _ _
  | runMain =>
    simp only
    nppeel (setPc_np _ _ _)
    npupd (foldl_np _ spawnProc_np _ _)

/-! ### the arms -/

theorem armDepLookup_np (s : Sys) (t d c r) : NPass s (armDepLookup s t d c r) := by
  unfold armDepLookup; cases c <;> exact setPc_np _ _ _
/-- the declared condition `c` on dependency instance `d`, as the woken thread evaluates it -/
def Met (s : Sys) (c : Cond) (d : IId) : Prop :=
  match c with
  | .completedOk => (s.ps (s.nameOf d)).exit = 0
  | .healthy => (s.ps (s.nameOf d)).health = .ready
  | .logReady => (s.inst d).logReady = .ok
  | .completed | .started => True

/-- new `passed` events are for met conditions (evaluated in the state before the step) -/
def PMet (s s' : Sys) : Prop :=
  ∀ i d c, GateEv.passed i d c ∈ s'.gate → GateEv.passed i d c ∈ s.gate ∨ Met s c d

theorem NPass.pmet {s s' : Sys} (h : NPass s s') : PMet s s' := fun i d c hm => Or.inl (h i d c hm)

theorem notePassed_pm (s : Sys) (i d : IId) (c : Cond) (hm : Met s c d) (t pc) :
    PMet s ((s.notePassed i d c).setPc t pc) := by
  intro i' d' c' h
  have h' : GateEv.passed i' d' c' ∈ (s.notePassed i d c).gate := h
  unfold Sys.notePassed at h'
  split at h'
  · have h'' : GateEv.passed i' d' c' ∈ GateEv.passed i d c :: s.gate := h'
    rcases List.mem_cons.1 h'' with e | e
    · cases e; exact Or.inr hm
    · exact Or.inl e
  · exact Or.inl h'

theorem armWaitDone_pm (s : Sys) (t i d ok r) : PMet s (armWaitDone s t i d ok r) := by
  unfold armWaitDone; split
  · exact (doSkip_np _ _ _).pmet
  · rename_i h
    refine notePassed_pm _ _ _ _ ?_ _ _
    cases ok with
    | false => simp [Met]
    | true =>
      have : (s.ps (s.nameOf d)).exit = 0 := by
        apply Classical.byContradiction; intro hne; exact h ⟨rfl, hne⟩
      simpa [Met] using this
theorem armWaitReady_pm (s : Sys) (t i d r) : PMet s (armWaitReady s t i d r) := by
  unfold armWaitReady; split
  · rename_i h; exact notePassed_pm _ _ _ _ (by simpa [Met] using h) _ _
  · exact (doSkip_np _ _ _).pmet
theorem armWaitLogReady_pm (s : Sys) (t i d r) : PMet s (armWaitLogReady s t i d r) := by
  unfold armWaitLogReady; split
  · rename_i h; exact notePassed_pm _ _ _ _ (by simpa [Met] using h) _ _
  · exact (doSkip_np _ _ _).pmet
theorem armProcSkipped_np (s : Sys) (t i) : NPass s (armProcSkipped s t i) := by
  unfold armProcSkipped; split
  · exact (recordExit_np _ _).then (setPc_np _ _ _)
  · exact gotoCleanup_np _ _
theorem armRunEnter_np (s : Sys) (t i) : NPass s (armRunEnter s t i) := by
  unfold armRunEnter; split
  · exact (onProcessEnd_np _ _ _).then (setPc_np _ _ _)
  · exact setPc_np _ _ _
theorem armRunChecked_np (s : Sys) (t i) : NPass s (armRunChecked s t i) := by
  unfold armRunChecked; split
  · exact ((setExit_np _ _ _).then (onProcessEnd_np _ _ _)).then (setPc_np _ _ _)
  · exact ((setInst_np _ _ _ (by inst_le)).then (emit_np _ _)).then (doLaunch_np _ _ _)
theorem armCmdWait_np (s : Sys) (t i) : NPass s (armCmdWait s t i) := by
  unfold armCmdWait; split
  · exact (setExit_np _ _ _).then (setPc_np _ _ _)
  · exact NPass.refl _
theorem armBackoff_np (s : Sys) (t i) : NPass s (armBackoff s t i) := by
  unfold armBackoff; split
  · exact (onProcessEnd_np _ _ _).then (setPc_np _ _ _)
  · exact setPc_np _ _ _
theorem armProcRan_np (s : Sys) (t i c) : NPass s (armProcRan s t i c) := by
  unfold armProcRan; nppeel (setPc_np _ _ _); done_np
theorem armProcDoneAdded_np (s : Sys) (t i c) : NPass s (armProcDoneAdded s t i c) := by
  unfold armProcDoneAdded; simp only; split
  · exact (recordExit_np _ _).then (setPc_np _ _ _)
  · exact gotoCleanup_np _ _

theorem armRunExited_np (s : Sys) (t i) : NPass s (armRunExited s t i) := by
  unfold armRunExited
  simp only
  refine (decideRestart_np s i).then ?_
  split
  · exact (((setState_np _ _ _).then (setPs_np _ _ _)).then (emit_np _ _)).then (setPc_np _ _ _)
  · exact (onProcessEnd_np _ _ _).then (setPc_np _ _ _)
theorem armLockCleanup_np (s : Sys) (t i) : NPass s (armLockCleanup s t i) := by
  unfold armLockCleanup; split
  · nppeel (setPc_np _ _ _); done_np
  · exact setPc_np _ _ _

theorem stepProc_pm (s : Sys) (t i h pc) : PMet s (stepProc s t i h pc) := by
  cases pc
  all_goals simp only [stepProc]
  case waitDone d ok rest => exact armWaitDone_pm _ _ _ _ _ _
  case waitReady d rest => exact armWaitReady_pm _ _ _ _ _
  case waitLogReady d rest => exact armWaitLogReady_pm _ _ _ _ _
  case waitStarted d rest => exact notePassed_pm _ _ _ _ (by simp [Met]) _ _
  all_goals apply NPass.pmet
  case procSkipped => exact armProcSkipped_np _ _ _
  case procDoneAdded c => exact armProcDoneAdded_np _ _ _ _
  case runExited => exact armRunExited_np _ _ _
  case begin => exact setPc_np _ _ _
  case depNext rest => exact depStep_np _ _ _ _ _
  case lockDep k c rest => exact lookupRunning_np _ _ _ _ _ _
  case depLookup d c rest => exact armDepLookup_np _ _ _ _ _
  case runEnter => exact armRunEnter_np _ _ _
  case runChecked => exact armRunChecked_np _ _ _
  case cmdWait => exact armCmdWait_np _ _ _
  case backoff => exact armBackoff_np _ _ _
  case backoffElapsed => exact doLaunch_np _ _ _
  case procRan c => exact armProcRan_np _ _ _ _
  case lockCleanup => exact armLockCleanup_np _ _ _
  all_goals exact NPass.refl _

theorem armStopEnter_np (s : Sys) (t i cr k) : NPass s (armStopEnter s t i cr k) := by
  unfold armStopEnter; split <;> exact setPc_np _ _ _
theorem armStopNotRunning_np (s : Sys) (t i k) : NPass s (armStopNotRunning s t i k) := by
  unfold armStopNotRunning; simp only; split
  · exact (onProcessEnd_np _ _ _).then (stopReturn_np _ _ _)
  · exact stopReturn_np _ _ _
theorem armStopChecked_np (s : Sys) (t i cr k) : NPass s (armStopChecked s t i cr k) := by
  unfold armStopChecked; exact (setState_np _ _ _).then (setPc_np _ _ _)

theorem stopMarkedPrep_np (s : Sys) (i cr) : NPass s (stopMarkedPrep s i cr) := by
  unfold stopMarkedPrep
  apply setInst_np
  intro x
  refine ⟨rfl, rfl, id, id, ?_, id, ?_, ?_⟩
  · intro h; simp [h]
  · intro h; simp [h]
  · intro h1 h2; simp_all

theorem armStopMarked_np (s : Sys) (t i cr k) : NPass s (armStopMarked s t i cr k) := by
  unfold armStopMarked
  simp only
  split
  · nppeel (stopReturn_np _ _ _)
    exact stopMarkedPrep_np _ _ _
  · split
    · nppeel (setPc_np _ _ _)
      nppeel (setInst_np _ _ _ (by inst_le))
      nppeel (cmdStop_np _ _ _)
      exact stopMarkedPrep_np _ _ _
    · nppeel (stopReturn_np _ _ _)
      nppeel (cmdStop_np _ _ _)
      exact stopMarkedPrep_np _ _ _
theorem armStopWaitKill_np (s : Sys) (t i k) : NPass s (armStopWaitKill s t i k) := by
  unfold armStopWaitKill; split
  · exact (cmdStop_np _ _ _).then (stopReturn_np _ _ _)
  · exact stopReturn_np _ _ _

theorem armSdEnter_np (s : Sys) (t h k) : NPass s (armSdEnter s t h k) := by
  unfold armSdEnter; split
  · npupd (sdBody_np _ _ _ _)
  · exact setPc_np _ _ _
theorem armSdPrepared_np (s : Sys) (t o k) : NPass s (armSdPrepared s t o k) := by
  unfold armSdPrepared; split
  · nppeel (setPc_np _ _ _)
    apply foldl_np
    intro s i
    exact NPass.congr_left (spawn_np _ _ (by intro i h; cases h)) (by npsame)
  · exact sdSeqNext_np _ _ _ _

theorem armStopperBegin_np (s : Sys) (t i) : NPass s (armStopperBegin s t i) := by
  unfold armStopperBegin
  simp only
  nppeel (setPc_np _ _ _)
  apply foldl_np
  intro s j
  exact NPass.congr_left (spawn_np _ _ (by intro i h; cases h)) (by npsame)

theorem stepStopper_np (s : Sys) (t i pc) : NPass s (stepStopper s t i pc) := by
  cases pc <;> simp only [stepStopper] <;>
    first | exact NPass.refl _ | exact armStopperBegin_np _ _ _ | exact gotoStop_np _ _ _ _ _
          | (nppeel (setPc_np _ _ _); done_np)
theorem stepWaiter_np (s : Sys) (t i pc) : NPass s (stepWaiter s t i pc) := by
  cases pc <;> simp only [stepWaiter] <;>
    first | exact NPass.refl _ | exact setPc_np _ _ _ | (nppeel (setPc_np _ _ _); done_np)
theorem stepDepwaiter_np (s : Sys) (t o i pc) : NPass s (stepDepwaiter s t o i pc) := by
  cases pc <;> simp only [stepDepwaiter] <;>
    first | exact NPass.refl _ | exact setPc_np _ _ _ | (nppeel (setPc_np _ _ _); done_np)

theorem armApiBegin_np (s : Sys) (t h op) : NPass s (armApiBegin s t h op) := by
  unfold armApiBegin
  cases op <;> simp only <;> first
    | exact setPc_np _ _ _
    | (split
       · exact apiFirst_np _ _ _ _
       · exact setPc_np _ _ _)
theorem armSpawnOrLock_np (s : Sys) (t n) : NPass s (armSpawnOrLock s t n) := by
  unfold armSpawnOrLock; split
  · split
    · exact apiSpawn_np _ _ _
    · exact setPc_np _ _ _
  · exact apiRet_np _ _ _
theorem stepApi_np (s : Sys) (t h op pc) : NPass s (stepApi s t h op pc) := by
  cases pc <;> simp only [stepApi] <;>
    first | exact NPass.refl _ | exact setPc_np _ _ _ | exact armApiBegin_np _ _ _ _ | exact apiFirst_np _ _ _ _
          | exact armSpawnOrLock_np _ _ _ | exact apiSpawn_np _ _ _
          | exact (emit_np _ _).then (setPc_np _ _ _)
theorem armProbeBegin_np (s : Sys) (t n) : NPass s (armProbeBegin s t n) := by
  unfold armProbeBegin; split
  · exact setPc_np _ _ _
  · split
    · exact setPc_np _ _ _
    · exact (setPs_np _ _ _).then (gotoStop_np _ _ _ _ _)

/-- **Every thread step records a `passed` event only for a condition that is met in the state it
    starts from.** -/
theorem stepThread_pm (s : Sys) (t : Tid) (h : Hints) : PMet s (stepThread s t h) := by
  unfold stepThread
  simp only
  split
  · exact (armStopEnter_np _ _ _ _ _).pmet
  · exact (armStopNotRunning_np _ _ _ _).pmet
  · exact (armStopChecked_np _ _ _ _ _).pmet
  · exact (armStopMarked_np _ _ _ _ _).pmet
  · exact (armStopWaitKill_np _ _ _ _).pmet
  · exact (armSdEnter_np _ _ _ _).pmet
  · apply NPass.pmet; npupd (sdBody_np _ _ _ _)
  · exact (armSdPrepared_np _ _ _ _).pmet
  · exact (sdReturn_np _ _ _).pmet
  · split
    · exact stepProc_pm _ _ _ _ _
    · exact (stepApi_np _ _ _ _ _).pmet
    · exact (stepStopper_np _ _ _ _).pmet
    · exact (stepWaiter_np _ _ _ _).pmet
    · exact (stepDepwaiter_np _ _ _ _ _).pmet
    · split
      · exact (armProbeBegin_np _ _ _).pmet
      · exact (NPass.refl _).pmet
    · split
      · exact ((setInst_np _ _ _ (by inst_le)).then (setPc_np _ _ _)).pmet
      · exact (NPass.refl _).pmet

end PC.Sup
