import PC.Proofs.SupArms
/-! The dependency gate as an invariant of every reachable state of `Sup`.

    Ghost log `Sys.gate`: `notFound i k` — instance `i` looked `k` up and no instance of `k` was
    registered; `passed i d c` — instance `i` was woken from its wait on instance `d` for condition
    `c` and went on. Invariant: every `passed` entry's latch is (still) set, and a process thread
    that is in its launch phase has every one of its dependencies covered by such an entry. -/
namespace PC.Sup

/-! ### helpers leave the thread table alone -/

@[simp] theorem setState_threads (s : Sys) (i st) : (setState s i st).threads = s.threads := by
  unfold setState; cases st <;> rfl
@[simp] theorem setExit_threads (s : Sys) (n c) : (setExit s n c).threads = s.threads := rfl
@[simp] theorem onProcessEnd_threads (s : Sys) (i st) : (onProcessEnd s i st).threads = s.threads := by
  unfold onProcessEnd; simp
@[simp] theorem cmdExit_threads (s : Sys) (i c) : (cmdExit s i c).threads = s.threads := rfl
@[simp] theorem cmdStop_threads (s : Sys) (i sig) : (cmdStop s i sig).threads = s.threads := by
  unfold cmdStop; simp only; split
  · split
    · rfl
    · split <;> rfl
  · rfl
@[simp] theorem recordExit_threads (s : Sys) (c) : (recordExit s c).threads = s.threads := by
  unfold recordExit; split <;> rfl
@[simp] theorem decideRestart_threads (s : Sys) (i) : (decideRestart s i).2.threads = s.threads := rfl
@[simp] theorem stopMarkedPrep_threads (s : Sys) (i cr) : (stopMarkedPrep s i cr).threads = s.threads := rfl

/-! ### phases of a process thread -/

/-- labels of the launch phase of `run()`: from its entry to the back-off -/
def Pc.isLaunch : Pc → Bool
  | .runEnter | .runChecked | .cmdWait | .runExited | .backoff | .backoffElapsed => true
  | _ => false

/-- labels of the dependency phase -/
def Pc.isDep : Pc → Bool
  | .depNext _ | .lockDep .. | .depLookup .. | .waitDone .. | .waitReady .. | .waitLogReady .. | .waitStarted .. => true
  | _ => false

/-- neither: nothing is required of the gate there -/
def Pc.isOther (pc : Pc) : Bool := !pc.isLaunch && !pc.isDep

theorem pc_setPc (s : Sys) (t : Tid) (pc : Pc) (h : t < s.threads.length) : ((s.setPc t pc).thr t).pc = pc :=
  thr_setPc_self s t pc h

/-- after `gotoCleanup`, `stopReturn`, `sdReturn`, `sdSeqNext`, `gotoStop`: a label outside both phases -/
theorem gotoCleanup_other (s : Sys) (t : Tid) (h : t < s.threads.length) : ((gotoCleanup s t).thr t).pc.isOther = true := by
  unfold gotoCleanup; rw [pc_setPc _ _ _ (by simpa using h)]; rfl

theorem gotoStop_other (s : Sys) (t : Tid) (i cr k) (h : t < s.threads.length) :
    ((gotoStop s t i cr k).thr t).pc.isOther = true := by
  unfold gotoStop; rw [pc_setPc _ _ _ (by simpa using h)]; rfl

theorem spawn_thr_lt (s : Sys) (k : Kind) (t : Tid) (h : t < s.threads.length) : (s.spawn k).thr t = s.thr t := by
  unfold Sys.thr Sys.spawn
  simp [List.getD_eq_getElem?_getD, List.getElem?_append_left h]

theorem sdSeqNext_other (s : Sys) (t : Tid) (rest k) (h : t < s.threads.length) :
    ((sdSeqNext s t rest k).thr t).pc.isOther = true := by
  unfold sdSeqNext
  cases rest with
  | nil => simp only; rw [pc_setPc _ _ _ h]; rfl
  | cons i r => exact gotoStop_other _ _ _ _ _ h

theorem stopReturn_other (s : Sys) (t : Tid) (k : StopK) (h : t < s.threads.length) :
    ((stopReturn s t k).thr t).pc.isOther = true := by
  unfold stopReturn
  cases k with
  | apiStop => simp only; split <;> (rw [pc_setPc _ _ _ (by simpa using h)]; rfl)
  | apiRestart n => simp only; rw [pc_setPc _ _ _ h]; rfl
  | sdSeq i rest k =>
    simp only
    exact sdSeqNext_other _ _ _ _ (by simp only [Sys.spawn, List.length_append, List.length_singleton]; exact Nat.lt_succ_of_lt h)
  | stopper i => simp only; rw [pc_setPc _ _ _ h]; rfl
  | probe => simp only; rw [pc_setPc _ _ _ h]; rfl

theorem sdReturn_other (s : Sys) (t : Tid) (k : SdK) (h : t < s.threads.length) :
    ((sdReturn s t k).thr t).pc.isOther = true := by
  unfold sdReturn
  cases k with
  | api => simp only; split <;> (rw [pc_setPc _ _ _ (by simpa using h)]; rfl)
  | procEnd c => exact gotoCleanup_other _ _ (by simpa using h)
  | procSkip => exact gotoCleanup_other _ _ (by simpa using h)

/-! ### the stop / shutdown arms (run on whatever thread called them) end outside both phases -/

theorem armStopEnter_other (s : Sys) (t i cr k) (h : t < s.threads.length) :
    ((armStopEnter s t i cr k).thr t).pc.isOther = true := by
  unfold armStopEnter; split <;> (rw [pc_setPc _ _ _ h]; rfl)

theorem armStopNotRunning_other (s : Sys) (t i k) (h : t < s.threads.length) :
    ((armStopNotRunning s t i k).thr t).pc.isOther = true := by
  unfold armStopNotRunning
  simp only
  split <;> exact stopReturn_other _ _ _ (by simpa using h)

theorem armStopChecked_other (s : Sys) (t i cr k) (h : t < s.threads.length) :
    ((armStopChecked s t i cr k).thr t).pc.isOther = true := by
  unfold armStopChecked; rw [pc_setPc _ _ _ (by simpa using h)]; rfl

theorem armStopMarked_other (s : Sys) (t i cr k) (h : t < s.threads.length) :
    ((armStopMarked s t i cr k).thr t).pc.isOther = true := by
  unfold armStopMarked
  simp only
  split
  · exact stopReturn_other _ _ _ (by simpa using h)
  · split
    · rw [pc_setPc _ _ _ (by simpa using h)]; rfl
    · exact stopReturn_other _ _ _ (by simpa using h)

theorem armStopWaitKill_other (s : Sys) (t i k) (h : t < s.threads.length) :
    ((armStopWaitKill s t i k).thr t).pc.isOther = true := by
  unfold armStopWaitKill
  split <;> exact stopReturn_other _ _ _ (by simpa using h)

theorem foldl_setInst_threads (l : List IId) (f : Inst → Inst) (s : Sys) :
    (l.foldl (fun s i => s.setInst i f) s).threads = s.threads := by
  induction l generalizing s with
  | nil => rfl
  | cons a r ih => simp only [List.foldl_cons]; rw [ih]; rfl

theorem sdBody_other (s : Sys) (t h k) (ht : t < s.threads.length) :
    ((sdBody s t h k).thr t).pc.isOther = true := by
  unfold sdBody
  simp only
  rw [pc_setPc _ _ _ (by rw [foldl_setInst_threads]; simpa using ht)]; rfl

theorem armSdEnter_other (s : Sys) (t h k) (ht : t < s.threads.length) :
    ((armSdEnter s t h k).thr t).pc.isOther = true := by
  unfold armSdEnter
  split
  · exact sdBody_other _ _ _ _ ht
  · rw [pc_setPc _ _ _ ht]; rfl

theorem foldl_spawn_thr (l : List IId) (mk : IId → Kind) (g : Sys → Sys) (hg : ∀ s, (g s).threads = s.threads)
    (s : Sys) (t : Tid) (ht : t < s.threads.length) :
    t < (l.foldl (fun s i => (g s).spawn (mk i)) s).threads.length ∧
    (l.foldl (fun s i => (g s).spawn (mk i)) s).thr t = s.thr t := by
  induction l generalizing s with
  | nil => exact ⟨ht, rfl⟩
  | cons a r ih =>
    simp only [List.foldl_cons]
    have h1 : t < ((g s).spawn (mk a)).threads.length := by
      simp only [Sys.spawn, List.length_append, List.length_singleton, hg]; exact Nat.lt_succ_of_lt ht
    obtain ⟨h2, h3⟩ := ih ((g s).spawn (mk a)) h1
    refine ⟨h2, ?_⟩
    rw [h3, spawn_thr_lt _ _ _ (by rw [hg]; exact ht)]
    unfold Sys.thr; rw [hg]

theorem armSdPrepared_other (s : Sys) (t order k) (ht : t < s.threads.length) :
    ((armSdPrepared s t order k).thr t).pc.isOther = true := by
  unfold armSdPrepared
  split
  · simp only
    have := foldl_spawn_thr order (fun i => Kind.stopper i) (fun s => { s with sdWg := s.sdWg + 1 }) (fun _ => rfl) s t ht
    rw [pc_setPc _ _ _ this.1]; rfl
  · exact sdSeqNext_other _ _ _ _ ht

/-! ### the arms of a process thread outside the dependency phase -/

theorem armProcSkipped_other (s : Sys) (t i) (h : t < s.threads.length) :
    ((armProcSkipped s t i).thr t).pc.isOther = true := by
  unfold armProcSkipped; split
  · rw [pc_setPc _ _ _ (by simpa using h)]; rfl
  · exact gotoCleanup_other _ _ h

theorem armProcRan_other (s : Sys) (t i c) (h : t < s.threads.length) :
    ((armProcRan s t i c).thr t).pc.isOther = true := by
  unfold armProcRan; rw [pc_setPc _ _ _ (by exact h)]; rfl

theorem armProcDoneAdded_other (s : Sys) (t i c) (h : t < s.threads.length) :
    ((armProcDoneAdded s t i c).thr t).pc.isOther = true := by
  unfold armProcDoneAdded; simp only; split
  · rw [pc_setPc _ _ _ (by simpa using h)]; rfl
  · exact gotoCleanup_other _ _ h

theorem armLockCleanup_other (s : Sys) (t i) (h : t < s.threads.length) :
    ((armLockCleanup s t i).thr t).pc.isOther = true := by
  unfold armLockCleanup; split <;> (rw [pc_setPc _ _ _ (by exact h)]; rfl)

/-- a launch-phase arm stays in the launch phase or leaves both phases -/
def Pc.launchOrOther (pc : Pc) : Bool := pc.isLaunch || pc.isOther

theorem armRunEnter_flow (s : Sys) (t i) (h : t < s.threads.length) :
    ((armRunEnter s t i).thr t).pc.launchOrOther = true := by
  unfold armRunEnter; split
  · rw [pc_setPc _ _ _ (by simpa using h)]; rfl
  · rw [pc_setPc _ _ _ h]; rfl

theorem doLaunch_flow (s : Sys) (t i) (h : t < s.threads.length) :
    ((doLaunch s t i).thr t).pc.launchOrOther = true := by
  unfold doLaunch
  simp only
  split
  · rw [pc_setPc _ _ _ (by simpa using h)]; rfl
  · split
    · rw [pc_setPc _ _ _ (by simp only [Sys.spawn, List.length_append, List.length_singleton]; simp; exact Nat.lt_succ_of_lt h)]; rfl
    · rw [pc_setPc _ _ _ (by simpa using h)]; rfl

theorem armRunChecked_flow (s : Sys) (t i) (h : t < s.threads.length) :
    ((armRunChecked s t i).thr t).pc.launchOrOther = true := by
  unfold armRunChecked; split
  · rw [pc_setPc _ _ _ (by simpa using h)]; rfl
  · exact doLaunch_flow _ _ _ (by simpa using h)

theorem armCmdWait_flow (s : Sys) (t i) (h : t < s.threads.length) (hpc : (s.thr t).pc = .cmdWait) :
    ((armCmdWait s t i).thr t).pc.launchOrOther = true := by
  unfold armCmdWait; split
  · rw [pc_setPc _ _ _ (by simpa using h)]; rfl
  · rw [hpc]; rfl

theorem armRunExited_flow (s : Sys) (t i) (h : t < s.threads.length) :
    ((armRunExited s t i).thr t).pc.launchOrOther = true := by
  unfold armRunExited
  simp only
  split
  · rw [pc_setPc _ _ _ (by simpa using h)]; rfl
  · rw [pc_setPc _ _ _ (by simpa using h)]; rfl

theorem armBackoff_flow (s : Sys) (t i) (h : t < s.threads.length) :
    ((armBackoff s t i).thr t).pc.launchOrOther = true := by
  unfold armBackoff; split
  · simp only; rw [pc_setPc _ _ _ (by simpa using h)]; rfl
  · rw [pc_setPc _ _ _ h]; rfl

/-! ### the gate invariant -/

/-- the wake condition of a wait on instance `d` for condition `c` -/
def Latch (s : Sys) (c : Cond) (d : IId) : Prop :=
  match c with
  | .completed => (s.inst d).done = true
  | .completedOk => (s.inst d).done = true
  | .healthy => (s.inst d).readyDone = true
  | .logReady => (s.inst d).logReady ≠ .none
  | .started => (s.inst d).started = true ∨ (s.inst d).runCancelled = true

/-- a latch can only be set on an instance that exists -/
theorem latch_lt {s : Sys} {c : Cond} {d : IId} (h : Latch s c d) : d < s.insts.length := by
  apply Classical.byContradiction
  intro hn
  have hd := inst_default s d (Nat.le_of_not_lt hn)
  unfold Latch at h
  cases c <;> simp [hd] at h

/-- latches are never unset (they are `Inst.Le`-monotone) -/
theorem latch_mono {t : Tid} {s s' : Sys} (hle : SysLe t s s') {c : Cond} {d : IId} (h : Latch s c d) : Latch s' c d := by
  have hd := latch_lt h
  have l := hle.old d hd
  unfold Latch at h ⊢
  cases c with
  | completed => exact l.done h
  | completedOk => exact l.done h
  | healthy => exact l.readyDone h
  | logReady => simp only at h ⊢; rw [l.logReady h]; exact h
  | started =>
    rcases h with h | h
    · exact Or.inl (l.started h)
    · exact Or.inr (l.runCancelled h)

/-- a dependency `(k, c)` of instance `i` is covered: nothing was registered under `k` when `i`
    looked it up, or `i` passed its wait for `c` on the instance `d` it had found under `k` -/
def Covered (s : Sys) (i : IId) (dep : Name × Cond) : Prop :=
  GateEv.notFound i dep.1 ∈ s.gate ∨ ∃ d, GateEv.found i dep.1 d ∈ s.gate ∧ GateEv.passed i d dep.2 ∈ s.gate

theorem covered_mono {t : Tid} {s s' : Sys} (hle : SysLe t s s') {i : IId} {dep : Name × Cond}
    (h : Covered s i dep) : Covered s' i dep := by
  rcases h with h | ⟨d, h1, h2⟩
  · exact Or.inl (hle.gate _ h)
  · exact Or.inr ⟨d, hle.gate _ h1, hle.gate _ h2⟩

/-- the dependencies not yet looked up at a label of the dependency phase -/
def restOf : Pc → List (Name × Cond)
  | .depNext r => r
  | .lockDep k c r => (k, c) :: r
  | .depLookup _ _ r | .waitDone _ _ r | .waitReady _ r | .waitLogReady _ r | .waitStarted _ r => r
  | _ => []

/-- the instance and condition a label of the dependency phase is waiting on -/
def curOf : Pc → Option (IId × Cond)
  | .depLookup d c _ => some (d, c)
  | .waitDone d ok _ => some (d, if ok then .completedOk else .completed)
  | .waitReady d _ => some (d, .healthy)
  | .waitLogReady d _ => some (d, .logReady)
  | .waitStarted d _ => some (d, .started)
  | _ => none

/-- what the gate demands of a process thread of instance `i` standing at `pc` -/
def Req (s : Sys) (deps : List (Name × Cond)) (i : IId) (pc : Pc) : Prop :=
  (pc.isLaunch = true → ∀ dep ∈ deps, Covered s i dep) ∧
  (pc.isDep = true → ∀ dep ∈ deps, dep ∈ restOf pc ∨ Covered s i dep ∨
      ∃ d, curOf pc = some (d, dep.2) ∧ GateEv.found i dep.1 d ∈ s.gate)

theorem req_mono {t : Tid} {s s' : Sys} (hle : SysLe t s s') {deps i pc} (h : Req s deps i pc) : Req s' deps i pc :=
  ⟨fun hl dep hd => covered_mono hle (h.1 hl dep hd),
   fun hp dep hd => by
    rcases h.2 hp dep hd with r | r | ⟨d, r1, r2⟩
    · exact Or.inl r
    · exact Or.inr (Or.inl (covered_mono hle r))
    · exact Or.inr (Or.inr ⟨d, r1, hle.gate _ r2⟩)⟩

theorem req_other (s : Sys) (deps i pc) (h : pc.isOther = true) : Req s deps i pc := by
  unfold Pc.isOther at h
  simp only [Bool.and_eq_true, Bool.not_eq_eq_eq_not, Bool.not_true] at h
  refine ⟨fun hl => ?_, fun hp => ?_⟩
  · rw [h.1] at hl; cases hl
  · rw [h.2] at hp; cases hp

structure GateInv (s : Sys) : Prop where
  /-- every wait that was passed was passed on a set latch, and the latch is still set -/
  passed : ∀ i d c, GateEv.passed i d c ∈ s.gate → Latch s c d
  /-- process threads belong to existing instances and meet the demand of their label -/
  thr : ∀ t, t < s.threads.length → ∀ i, (s.thr t).kind = .proc i →
    i < s.insts.length ∧ Req s (s.icfg i).deps i (s.thr t).pc

theorem icfg_mono {t : Tid} {s s' : Sys} (hle : SysLe t s s') {i : IId} (hi : i < s.insts.length) :
    s'.icfg i = s.icfg i := by
  unfold Sys.icfg Sys.cfg Sys.nameOf
  rw [hle.cfgs, (hle.old i hi).name]

/-! ### what `stepThread` does on a process thread -/

/-- labels handled by the stop / shutdown arms whatever the kind of the thread -/
def Pc.isStopSd : Pc → Bool
  | .stopEnter .. | .stopNotRunning .. | .stopChecked .. | .stopMarked .. | .stopWaitKill ..
  | .sdEnter _ | .sdLock _ | .sdPrepared .. | .sdWg _ => true
  | _ => false

theorem stepThread_proc (s : Sys) (t : Tid) (h : Hints) (i : IId) (hk : (s.thr t).kind = .proc i)
    (hp : (s.thr t).pc.isStopSd = false) : stepThread s t h = stepProc s t i h (s.thr t).pc := by
  unfold stepThread
  simp only
  cases hpc : (s.thr t).pc <;> simp_all [Pc.isStopSd]

theorem stepThread_stopSd_other (s : Sys) (t : Tid) (h : Hints) (ht : t < s.threads.length)
    (hp : (s.thr t).pc.isStopSd = true) : ((stepThread s t h).thr t).pc.isOther = true := by
  unfold stepThread
  simp only
  cases hpc : (s.thr t).pc <;> simp_all [Pc.isStopSd]
  · exact armStopEnter_other _ _ _ _ _ ht
  · exact armStopNotRunning_other _ _ _ _ ht
  · exact armStopChecked_other _ _ _ _ _ ht
  · exact armStopMarked_other _ _ _ _ _ ht
  · exact armStopWaitKill_other _ _ _ _ ht
  · exact armSdEnter_other _ _ _ _ ht
  · exact sdBody_other _ _ _ _ (by simpa using ht)
  · exact armSdPrepared_other _ _ _ _ ht
  · exact sdReturn_other _ _ _ ht

theorem pickDep_none {h : Hints} {rest : List (Name × Cond)} (hp : pickDep h rest = none) : rest = [] := by
  unfold pickDep at hp
  split at hp
  · cases hp
  · split at hp
    · rfl
    · cases hp

theorem pickDep_some {h : Hints} {rest rest' : List (Name × Cond)} {d : Name × Cond}
    (hp : pickDep h rest = some (d, rest')) : ∀ x ∈ rest, x = d ∨ x ∈ rest' := by
  unfold pickDep at hp
  split at hp
  · rename_i d0 _
    simp only [Option.some.injEq, Prod.mk.injEq] at hp
    obtain ⟨rfl, rfl⟩ := hp
    intro x hx
    by_cases hxd : x = d0
    · exact Or.inl hxd
    · exact Or.inr (List.mem_filter.mpr ⟨hx, by simpa using hxd⟩)
  · split at hp
    · cases hp
    · simp only [Option.some.injEq, Prod.mk.injEq] at hp
      obtain ⟨rfl, rfl⟩ := hp
      intro x hx
      rcases List.mem_cons.mp hx with e | e
      · exact Or.inl e
      · exact Or.inr e

end PC.Sup
