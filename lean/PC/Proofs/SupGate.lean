import PC.Proofs.SupArms
/-! The dependency gate as an invariant of every reachable state of `Sup`.

    Ghost log `Sys.gate`: `notFound i k` — instance `i` looked `k` up and no instance of `k` was
    registered; `passed i d c` — instance `i` was woken from its wait on instance `d` for condition
    `c` and went on. Invariant: every `passed` entry's latch is (still) set, and a process thread
    that is in its launch phase has every one of its dependencies covered by such an entry. -/
namespace PC.Sup

/-! ### helpers leave the thread table alone -/

@[simp] theorem setState_threads (s : Sys) (i st) : (setState s i st).threads = s.threads := by
  unfold setState; cases st <;> rfl
@[simp] theorem setExit_threads (s : Sys) (n c) : (setExit s n c).threads = s.threads := rfl
@[simp] theorem onProcessEnd_threads (s : Sys) (i st) : (onProcessEnd s i st).threads = s.threads := by
  unfold onProcessEnd; simp
@[simp] theorem cmdExit_threads (s : Sys) (i c) : (cmdExit s i c).threads = s.threads := rfl
@[simp] theorem cmdStop_threads (s : Sys) (i sig) : (cmdStop s i sig).threads = s.threads := by
  unfold cmdStop; simp only; split
  · split
    · rfl
    · split <;> rfl
  · rfl
@[simp] theorem recordExit_threads (s : Sys) (c) : (recordExit s c).threads = s.threads := by
  unfold recordExit; split <;> rfl
@[simp] theorem decideRestart_threads (s : Sys) (i) : (decideRestart s i).2.threads = s.threads := rfl
@[simp] theorem stopMarkedPrep_threads (s : Sys) (i cr) : (stopMarkedPrep s i cr).threads = s.threads := rfl

/-! ### phases of a process thread -/

/-- labels of the launch phase of `run()`: from its entry to the back-off -/
def Pc.isLaunch : Pc → Bool
  | .runEnter | .runChecked | .cmdWait | .runExited | .backoff | .backoffElapsed => true
  | _ => false

/-- labels of the dependency phase -/
def Pc.isDep : Pc → Bool
  | .depNext _ | .lockDep .. | .depLookup .. | .waitDone .. | .waitReady .. | .waitLogReady .. | .waitStarted .. => true
  | _ => false

/-- neither: nothing is required of the gate there -/
def Pc.isOther (pc : Pc) : Bool := !pc.isLaunch && !pc.isDep

/-- past the dependency and launch phases for good: neither phase, and not the entry label -/
def Pc.isTail (pc : Pc) : Bool := pc.isOther && !(match pc with | .begin => true | _ => false)

theorem tail_other {pc : Pc} (h : pc.isTail = true) : pc.isOther = true := by
  unfold Pc.isTail at h; exact (Bool.and_eq_true_iff.mp h).1

theorem pc_setPc (s : Sys) (t : Tid) (pc : Pc) (h : t < s.threads.length) : ((s.setPc t pc).thr t).pc = pc :=
  thr_setPc_self s t pc h

/-- after `gotoCleanup`, `stopReturn`, `sdReturn`, `sdSeqNext`, `gotoStop`: a label outside both phases -/
theorem gotoCleanup_other (s : Sys) (t : Tid) (h : t < s.threads.length) : ((gotoCleanup s t).thr t).pc.isTail = true := by
  unfold gotoCleanup; rw [pc_setPc _ _ _ (by simpa using h)]; rfl

theorem gotoStop_other (s : Sys) (t : Tid) (i cr k) (h : t < s.threads.length) :
    ((gotoStop s t i cr k).thr t).pc.isTail = true := by
  unfold gotoStop; rw [pc_setPc _ _ _ (by simpa using h)]; rfl

theorem spawn_thr_lt (s : Sys) (k : Kind) (t : Tid) (h : t < s.threads.length) : (s.spawn k).thr t = s.thr t := by
  unfold Sys.thr Sys.spawn
  simp [List.getD_eq_getElem?_getD, List.getElem?_append_left h]

theorem sdSeqNext_other (s : Sys) (t : Tid) (rest k) (h : t < s.threads.length) :
    ((sdSeqNext s t rest k).thr t).pc.isTail = true := by
  unfold sdSeqNext
  cases rest with
  | nil => simp only; rw [pc_setPc _ _ _ h]; rfl
  | cons i r => exact gotoStop_other _ _ _ _ _ h

theorem stopReturn_other (s : Sys) (t : Tid) (k : StopK) (h : t < s.threads.length) :
    ((stopReturn s t k).thr t).pc.isTail = true := by
  unfold stopReturn
  cases k with
  | apiStop => simp only; split <;> (rw [pc_setPc _ _ _ (by simpa using h)]; rfl)
  | apiRestart n => simp only; rw [pc_setPc _ _ _ h]; rfl
  | sdSeq i rest k =>
    simp only
    exact sdSeqNext_other _ _ _ _ (by simp only [Sys.spawn, List.length_append, List.length_singleton]; exact Nat.lt_succ_of_lt h)
  | stopper i => simp only; rw [pc_setPc _ _ _ h]; rfl
  | probe => simp only; rw [pc_setPc _ _ _ h]; rfl

theorem sdReturn_other (s : Sys) (t : Tid) (k : SdK) (h : t < s.threads.length) :
    ((sdReturn s t k).thr t).pc.isTail = true := by
  unfold sdReturn
  cases k with
  | api => simp only; split <;> (rw [pc_setPc _ _ _ (by simpa using h)]; rfl)
  | procEnd c => exact gotoCleanup_other _ _ (by simpa using h)
  | procSkip => exact gotoCleanup_other _ _ (by simpa using h)

/-! ### the stop / shutdown arms (run on whatever thread called them) end outside both phases -/

theorem armStopEnter_other (s : Sys) (t i cr k) (h : t < s.threads.length) :
    ((armStopEnter s t i cr k).thr t).pc.isTail = true := by
  unfold armStopEnter; split <;> (rw [pc_setPc _ _ _ h]; rfl)

theorem armStopNotRunning_other (s : Sys) (t i k) (h : t < s.threads.length) :
    ((armStopNotRunning s t i k).thr t).pc.isTail = true := by
  unfold armStopNotRunning
  simp only
  split <;> exact stopReturn_other _ _ _ (by simpa using h)

theorem armStopChecked_other (s : Sys) (t i cr k) (h : t < s.threads.length) :
    ((armStopChecked s t i cr k).thr t).pc.isTail = true := by
  unfold armStopChecked; rw [pc_setPc _ _ _ (by simpa using h)]; rfl

theorem armStopMarked_other (s : Sys) (t i cr k) (h : t < s.threads.length) :
    ((armStopMarked s t i cr k).thr t).pc.isTail = true := by
  unfold armStopMarked
  simp only
  split
  · exact stopReturn_other _ _ _ (by simpa using h)
  · split
    · rw [pc_setPc _ _ _ (by simpa using h)]; rfl
    · exact stopReturn_other _ _ _ (by simpa using h)

theorem armStopWaitKill_other (s : Sys) (t i k) (h : t < s.threads.length) :
    ((armStopWaitKill s t i k).thr t).pc.isTail = true := by
  unfold armStopWaitKill
  split <;> exact stopReturn_other _ _ _ (by simpa using h)

theorem foldl_setInst_threads (l : List IId) (f : Inst → Inst) (s : Sys) :
    (l.foldl (fun s i => s.setInst i f) s).threads = s.threads := by
  induction l generalizing s with
  | nil => rfl
  | cons a r ih => simp only [List.foldl_cons]; rw [ih]; rfl

theorem sdBody_other (s : Sys) (t h k) (ht : t < s.threads.length) :
    ((sdBody s t h k).thr t).pc.isTail = true := by
  unfold sdBody
  simp only
  rw [pc_setPc _ _ _ (by rw [foldl_setInst_threads]; simpa using ht)]; rfl

theorem armSdEnter_other (s : Sys) (t h k) (ht : t < s.threads.length) :
    ((armSdEnter s t h k).thr t).pc.isTail = true := by
  unfold armSdEnter
  split
  · exact sdBody_other _ _ _ _ ht
  · rw [pc_setPc _ _ _ ht]; rfl

theorem foldl_spawn_thr (l : List IId) (mk : IId → Kind) (g : Sys → Sys) (hg : ∀ s, (g s).threads = s.threads)
    (s : Sys) (t : Tid) (ht : t < s.threads.length) :
    t < (l.foldl (fun s i => (g s).spawn (mk i)) s).threads.length ∧
    (l.foldl (fun s i => (g s).spawn (mk i)) s).thr t = s.thr t := by
  induction l generalizing s with
  | nil => exact ⟨ht, rfl⟩
  | cons a r ih =>
    simp only [List.foldl_cons]
    have h1 : t < ((g s).spawn (mk a)).threads.length := by
      simp only [Sys.spawn, List.length_append, List.length_singleton, hg]; exact Nat.lt_succ_of_lt ht
    obtain ⟨h2, h3⟩ := ih ((g s).spawn (mk a)) h1
    refine ⟨h2, ?_⟩
    rw [h3, spawn_thr_lt _ _ _ (by rw [hg]; exact ht)]
    unfold Sys.thr; rw [hg]

theorem armSdPrepared_other (s : Sys) (t order k) (ht : t < s.threads.length) :
    ((armSdPrepared s t order k).thr t).pc.isTail = true := by
  unfold armSdPrepared
  split
  · simp only
    have := foldl_spawn_thr order (fun i => Kind.stopper i) (fun s => { s with sdWg := s.sdWg + 1 }) (fun _ => rfl) s t ht
    rw [pc_setPc _ _ _ this.1]; rfl
  · exact sdSeqNext_other _ _ _ _ ht

/-! ### the arms of a process thread outside the dependency phase -/

theorem armProcSkipped_other (s : Sys) (t i) (h : t < s.threads.length) :
    ((armProcSkipped s t i).thr t).pc.isTail = true := by
  unfold armProcSkipped; split
  · rw [pc_setPc _ _ _ (by simpa using h)]; rfl
  · exact gotoCleanup_other _ _ h

theorem armProcRan_other (s : Sys) (t i c) (h : t < s.threads.length) :
    ((armProcRan s t i c).thr t).pc.isTail = true := by
  unfold armProcRan; rw [pc_setPc _ _ _ (by exact h)]; rfl

theorem armProcDoneAdded_other (s : Sys) (t i c) (h : t < s.threads.length) :
    ((armProcDoneAdded s t i c).thr t).pc.isTail = true := by
  unfold armProcDoneAdded; simp only; split
  · rw [pc_setPc _ _ _ (by simpa using h)]; rfl
  · exact gotoCleanup_other _ _ h

theorem armLockCleanup_other (s : Sys) (t i) (h : t < s.threads.length) :
    ((armLockCleanup s t i).thr t).pc.isTail = true := by
  unfold armLockCleanup; split <;> (rw [pc_setPc _ _ _ (by exact h)]; rfl)

/-- a launch-phase arm stays in the launch phase or leaves both phases -/
def Pc.launchOrOther (pc : Pc) : Bool := pc.isLaunch || pc.isOther

theorem armRunEnter_flow (s : Sys) (t i) (h : t < s.threads.length) :
    ((armRunEnter s t i).thr t).pc.launchOrOther = true := by
  unfold armRunEnter; split
  · rw [pc_setPc _ _ _ (by simpa using h)]; rfl
  · rw [pc_setPc _ _ _ h]; rfl

theorem doLaunch_flow (s : Sys) (t i) (h : t < s.threads.length) :
    ((doLaunch s t i).thr t).pc.launchOrOther = true := by
  unfold doLaunch
  simp only
  split
  · rw [pc_setPc _ _ _ (by simpa using h)]; rfl
  · split
    · rw [pc_setPc _ _ _ (by simp only [Sys.spawn, List.length_append, List.length_singleton]; simp; exact Nat.lt_succ_of_lt h)]; rfl
    · rw [pc_setPc _ _ _ (by simpa using h)]; rfl

theorem armRunChecked_flow (s : Sys) (t i) (h : t < s.threads.length) :
    ((armRunChecked s t i).thr t).pc.launchOrOther = true := by
  unfold armRunChecked; split
  · rw [pc_setPc _ _ _ (by simpa using h)]; rfl
  · exact doLaunch_flow _ _ _ (by simpa using h)

theorem armCmdWait_flow (s : Sys) (t i) (h : t < s.threads.length) (hpc : (s.thr t).pc = .cmdWait) :
    ((armCmdWait s t i).thr t).pc.launchOrOther = true := by
  unfold armCmdWait; split
  · rw [pc_setPc _ _ _ (by simpa using h)]; rfl
  · rw [hpc]; rfl

theorem armRunExited_flow (s : Sys) (t i) (h : t < s.threads.length) :
    ((armRunExited s t i).thr t).pc.launchOrOther = true := by
  unfold armRunExited
  simp only
  split
  · rw [pc_setPc _ _ _ (by simpa using h)]; rfl
  · rw [pc_setPc _ _ _ (by simpa using h)]; rfl

theorem armBackoff_flow (s : Sys) (t i) (h : t < s.threads.length) :
    ((armBackoff s t i).thr t).pc.launchOrOther = true := by
  unfold armBackoff; split
  · simp only; rw [pc_setPc _ _ _ (by simpa using h)]; rfl
  · rw [pc_setPc _ _ _ h]; rfl

/-! ### the gate invariant -/

/-- a dependency `(k, c)` of instance `i` is covered: nothing was registered under `k` when `i`
    looked it up, or `i` passed its wait for `c` on the instance `d` it had found under `k` -/
def Covered (s : Sys) (i : IId) (dep : Name × Cond) : Prop :=
  GateEv.notFound i dep.1 ∈ s.gate ∨ ∃ d, GateEv.found i dep.1 d ∈ s.gate ∧ GateEv.passed i d dep.2 ∈ s.gate

theorem covered_mono {t : Tid} {s s' : Sys} (hle : SysLe t s s') {i : IId} {dep : Name × Cond}
    (h : Covered s i dep) : Covered s' i dep := by
  rcases h with h | ⟨d, h1, h2⟩
  · exact Or.inl (hle.gate _ h)
  · exact Or.inr ⟨d, hle.gate _ h1, hle.gate _ h2⟩

/-- the dependencies not yet looked up at a label of the dependency phase -/
def restOf : Pc → List (Name × Cond)
  | .depNext r => r
  | .lockDep k c r => (k, c) :: r
  | .depLookup _ _ r | .waitDone _ _ r | .waitReady _ r | .waitLogReady _ r | .waitStarted _ r => r
  | _ => []

/-- the instance and condition a label of the dependency phase is waiting on -/
def curOf : Pc → Option (IId × Cond)
  | .depLookup d c _ => some (d, c)
  | .waitDone d ok _ => some (d, if ok then .completedOk else .completed)
  | .waitReady d _ => some (d, .healthy)
  | .waitLogReady d _ => some (d, .logReady)
  | .waitStarted d _ => some (d, .started)
  | _ => none

/-- what the gate demands of a process thread of instance `i` standing at `pc` -/
def Req (s : Sys) (deps : List (Name × Cond)) (i : IId) (pc : Pc) : Prop :=
  (pc.isLaunch = true → ∀ dep ∈ deps, Covered s i dep) ∧
  (pc.isDep = true → ∀ dep ∈ deps, dep ∈ restOf pc ∨ Covered s i dep ∨
      ∃ d, curOf pc = some (d, dep.2) ∧ GateEv.found i dep.1 d ∈ s.gate)

theorem req_mono {t : Tid} {s s' : Sys} (hle : SysLe t s s') {deps i pc} (h : Req s deps i pc) : Req s' deps i pc :=
  ⟨fun hl dep hd => covered_mono hle (h.1 hl dep hd),
   fun hp dep hd => by
    rcases h.2 hp dep hd with r | r | ⟨d, r1, r2⟩
    · exact Or.inl r
    · exact Or.inr (Or.inl (covered_mono hle r))
    · exact Or.inr (Or.inr ⟨d, r1, hle.gate _ r2⟩)⟩

theorem req_other (s : Sys) (deps i pc) (h : pc.isOther = true) : Req s deps i pc := by
  unfold Pc.isOther at h
  simp only [Bool.and_eq_true, Bool.not_eq_eq_eq_not, Bool.not_true] at h
  refine ⟨fun hl => ?_, fun hp => ?_⟩
  · rw [h.1] at hl; cases hl
  · rw [h.2] at hp; cases hp

structure GateInv (s : Sys) : Prop where
  /-- every wait that was passed was passed on a set latch, and the latch is still set -/
  passed : ∀ i d c, GateEv.passed i d c ∈ s.gate → latchB s c d = true
  /-- process threads belong to existing instances and meet the demand of their label -/
  thr : ∀ t, t < s.threads.length → ∀ i, (s.thr t).kind = .proc i →
    i < s.insts.length ∧ Req s (s.icfg i).deps i (s.thr t).pc

theorem icfg_mono {t : Tid} {s s' : Sys} (hle : SysLe t s s') {i : IId} (hi : i < s.insts.length) :
    s'.icfg i = s.icfg i := by
  unfold Sys.icfg Sys.cfg Sys.nameOf
  rw [hle.cfgs, (hle.old i hi).name]

/-! ### what `stepThread` does on a process thread -/

/-- labels handled by the stop / shutdown arms whatever the kind of the thread -/
def Pc.isStopSd : Pc → Bool
  | .stopEnter .. | .stopNotRunning .. | .stopChecked .. | .stopMarked .. | .stopWaitKill ..
  | .sdEnter _ | .sdLock _ | .sdPrepared .. | .sdWg _ => true
  | _ => false

theorem stepThread_proc (s : Sys) (t : Tid) (h : Hints) (i : IId) (hk : (s.thr t).kind = .proc i)
    (hp : (s.thr t).pc.isStopSd = false) : stepThread s t h = stepProc s t i h (s.thr t).pc := by
  unfold stepThread
  simp only
  cases hpc : (s.thr t).pc <;> simp_all [Pc.isStopSd]

theorem stepThread_stopSd_other (s : Sys) (t : Tid) (h : Hints) (ht : t < s.threads.length)
    (hp : (s.thr t).pc.isStopSd = true) : ((stepThread s t h).thr t).pc.isTail = true := by
  unfold stepThread
  simp only
  cases hpc : (s.thr t).pc <;> simp_all [Pc.isStopSd]
  · exact armStopEnter_other _ _ _ _ _ ht
  · exact armStopNotRunning_other _ _ _ _ ht
  · exact armStopChecked_other _ _ _ _ _ ht
  · exact armStopMarked_other _ _ _ _ _ ht
  · exact armStopWaitKill_other _ _ _ _ ht
  · exact armSdEnter_other _ _ _ _ ht
  · exact sdBody_other _ _ _ _ (by simpa using ht)
  · exact armSdPrepared_other _ _ _ _ ht
  · exact sdReturn_other _ _ _ ht

theorem pickDep_none {h : Hints} {rest : List (Name × Cond)} (hp : pickDep h rest = none) : rest = [] := by
  unfold pickDep at hp
  split at hp
  · cases hp
  · split at hp
    · rfl
    · cases hp

theorem pickDep_some {h : Hints} {rest rest' : List (Name × Cond)} {d : Name × Cond}
    (hp : pickDep h rest = some (d, rest')) : ∀ x ∈ rest, x = d ∨ x ∈ rest' := by
  unfold pickDep at hp
  split at hp
  · rename_i d0 _
    simp only [Option.some.injEq, Prod.mk.injEq] at hp
    obtain ⟨rfl, rfl⟩ := hp
    intro x hx
    by_cases hxd : x = d0
    · exact Or.inl hxd
    · exact Or.inr (List.mem_filter.mpr ⟨hx, by simpa using hxd⟩)
  · split at hp
    · cases hp
    · simp only [Option.some.injEq, Prod.mk.injEq] at hp
      obtain ⟨rfl, rfl⟩ := hp
      intro x hx
      rcases List.mem_cons.mp hx with e | e
      · exact Or.inl e
      · exact Or.inr e

/-! ### the dependency phase, arm by arm -/

@[simp] theorem setPc_gate (s : Sys) (t pc) : (s.setPc t pc).gate = s.gate := rfl
@[simp] theorem emit_gate (s : Sys) (o) : (s.emit o).gate = s.gate := rfl
@[simp] theorem note_gate (s : Sys) (e) : (s.note e).gate = e :: s.gate := rfl
@[simp] theorem setPc_icfg (s : Sys) (t pc i) : (s.setPc t pc).icfg i = s.icfg i := rfl
@[simp] theorem emit_icfg (s : Sys) (o i) : (s.emit o).icfg i = s.icfg i := rfl

/-- the wake condition of the wait labels (what `enabledThr` tests before the arm runs) -/
def WaitOK (s : Sys) : Pc → Prop
  | .waitDone d _ _ => (s.inst d).done = true
  | .waitReady d _ => (s.inst d).readyDone = true
  | .waitLogReady d _ => (s.inst d).logReady ≠ .none
  | .waitStarted d _ => (s.inst d).started = true ∨ (s.inst d).runCancelled = true
  | _ => True

theorem waitOK_of_enabled (s : Sys) (t : Tid) (h : enabledThr s t = true) : WaitOK s (s.thr t).pc := by
  unfold enabledThr at h
  unfold WaitOK
  cases hpc : (s.thr t).pc <;> simp_all

theorem waitOK_of_not_parked (s : Sys) (t : Tid) (h : mustPark s t = false) : WaitOK s (s.thr t).pc := by
  unfold mustPark at h
  unfold WaitOK
  cases hpc : (s.thr t).pc <;> simp_all [Pc.isYield]

theorem notePassed_gate_of (s : Sys) (i d : IId) (c : Cond) (h : latchB s c d = true) :
    (s.notePassed i d c).gate = .passed i d c :: s.gate := by
  unfold Sys.notePassed; simp [h]

/-- the step of the lookup: the looked-up dependency becomes the current one, or is recorded as not found -/
theorem lookupRunning_req (s : Sys) (t i k c rest) (deps : List (Name × Cond)) (ht : t < s.threads.length)
    (h : ∀ dep ∈ deps, dep = (k, c) ∨ dep ∈ rest ∨ Covered s i dep) :
    let s' := lookupRunning s t i k c rest
    Req s' deps i (s'.thr t).pc := by
  intro s'
  show Req (lookupRunning s t i k c rest) deps i ((lookupRunning s t i k c rest).thr t).pc
  unfold lookupRunning
  split
  · rename_i d _
    rw [pc_setPc _ _ _ (by simpa using ht)]
    refine ⟨(fun hl => by simp [Pc.isLaunch] at hl), fun _ dep hd => ?_⟩
    rcases h dep hd with e | e | e
    · subst e
      exact Or.inr (Or.inr ⟨d, rfl, by simp⟩)
    · exact Or.inl e
    · refine Or.inr (Or.inl ?_)
      rcases e with e | ⟨d', e1, e2⟩
      · exact Or.inl (by simp [e])
      · exact Or.inr ⟨d', by simp [e1], by simp [e2]⟩
  · rw [pc_setPc _ _ _ (by simpa using ht)]
    refine ⟨(fun hl => by simp [Pc.isLaunch] at hl), fun _ dep hd => ?_⟩
    rcases h dep hd with e | e | e
    · subst e
      exact Or.inr (Or.inl (Or.inl (by simp)))
    · exact Or.inl e
    · refine Or.inr (Or.inl ?_)
      rcases e with e | ⟨d', e1, e2⟩
      · exact Or.inl (by simp [e])
      · exact Or.inr ⟨d', by simp [e1], by simp [e2]⟩

theorem covered_of_gate_sub {s s' : Sys} (h : ∀ e ∈ s.gate, e ∈ s'.gate) {i dep} (hc : Covered s i dep) : Covered s' i dep := by
  rcases hc with e | ⟨d, e1, e2⟩
  · exact Or.inl (h _ e)
  · exact Or.inr ⟨d, h _ e1, h _ e2⟩

theorem depStep_req (s : Sys) (t i h rest) (deps : List (Name × Cond)) (ht : t < s.threads.length)
    (hr : ∀ dep ∈ deps, dep ∈ rest ∨ Covered s i dep) :
    Req (depStep s t i h rest) deps i ((depStep s t i h rest).thr t).pc := by
  unfold depStep
  split
  · -- nothing left: into run()
    rename_i hp
    have hnil := pickDep_none hp
    unfold afterDeps
    rw [pc_setPc _ _ _ ht]
    refine ⟨fun _ dep hd => ?_, fun hp => by simp [Pc.isDep] at hp⟩
    rcases hr dep hd with e | e
    · rw [hnil] at e; cases e
    · exact e
  · rename_i k c rest' hp
    have hsplit := pickDep_some hp
    simp only
    split
    · -- already done: found in the done registry
      rename_i d _
      rw [pc_setPc _ _ _ (by simpa using ht)]
      refine ⟨(fun hl => by simp [Pc.isLaunch] at hl), fun _ dep hd => ?_⟩
      rcases hr dep hd with e | e
      · rcases hsplit dep e with e2 | e2
        · subst e2; exact Or.inr (Or.inr ⟨d, rfl, by simp⟩)
        · exact Or.inl e2
      · exact Or.inr (Or.inl (covered_of_gate_sub (by intro x hx; simp [hx]) e))
    · split
      · refine lookupRunning_req _ t i k c rest' deps (by simpa using ht) ?_
        intro dep hd
        rcases hr dep hd with e | e
        · rcases hsplit dep e with e2 | e2
          · exact Or.inl e2
          · exact Or.inr (Or.inl e2)
        · exact Or.inr (Or.inr (covered_of_gate_sub (by intro x hx; simpa using hx) e))
      · rw [pc_setPc _ _ _ (by simpa using ht)]
        refine ⟨(fun hl => by simp [Pc.isLaunch] at hl), fun _ dep hd => ?_⟩
        rcases hr dep hd with e | e
        · rcases hsplit dep e with e2 | e2
          · subst e2; exact Or.inl (by simp [restOf])
          · exact Or.inl (by simp [restOf, e2])
        · exact Or.inr (Or.inl (covered_of_gate_sub (by intro x hx; simpa using hx) e))

theorem armDepLookup_req (s : Sys) (t i d c rest) (deps : List (Name × Cond)) (ht : t < s.threads.length)
    (hr : Req s deps i (.depLookup d c rest)) :
    Req (armDepLookup s t d c rest) deps i ((armDepLookup s t d c rest).thr t).pc := by
  have h2 := hr.2 rfl
  unfold armDepLookup
  cases c <;> simp only <;> rw [pc_setPc _ _ _ ht] <;>
    exact ⟨(fun hl => by simp [Pc.isLaunch] at hl), fun _ dep hd => by
      rcases h2 dep hd with e | e | ⟨d', e1, e2⟩
      · exact Or.inl (by simpa [restOf] using e)
      · exact Or.inr (Or.inl e)
      · simp only [curOf, Option.some.injEq, Prod.mk.injEq] at e1
        exact Or.inr (Or.inr ⟨d', by simp [curOf, e1.1, ← e1.2], e2⟩)⟩

/-- a wait that is passed: the current dependency becomes covered -/
theorem pass_req (s : Sys) (t i d : IId) (c : Cond) (pc : Pc) (rest) (deps : List (Name × Cond))
    (ht : t < s.threads.length) (hl : latchB s c d = true)
    (hdep : pc.isDep = true) (hcur : curOf pc = some (d, c)) (hrest : restOf pc = rest)
    (hr : Req s deps i pc) :
    Req ((s.notePassed i d c).setPc t (.depNext rest)) deps i ((((s.notePassed i d c).setPc t (.depNext rest))).thr t).pc := by
  rw [pc_setPc _ _ _ (by simpa using ht)]
  have hg := notePassed_gate_of s i d c hl
  refine ⟨(fun h => by simp [Pc.isLaunch] at h), fun _ dep hd => ?_⟩
  rcases hr.2 hdep dep hd with e | e | ⟨d', e1, e2⟩
  · exact Or.inl (by rw [hrest] at e; simpa [restOf] using e)
  · refine Or.inr (Or.inl (covered_of_gate_sub ?_ e))
    intro x hx; simp [hg, hx]
  · rw [hcur] at e1
    simp only [Option.some.injEq, Prod.mk.injEq] at e1
    refine Or.inr (Or.inl (Or.inr ⟨d, ?_, ?_⟩))
    · simp only [setPc_gate, hg]; rw [e1.1]; exact List.mem_cons_of_mem _ e2
    · simp only [setPc_gate, hg]; rw [← e1.2]; exact List.mem_cons_self ..

theorem doSkip_other (s : Sys) (t i) (ht : t < s.threads.length) : ((doSkip s t i).thr t).pc.isTail = true := by
  unfold doSkip; rw [pc_setPc _ _ _ (by simpa [addDone] using ht)]; rfl

/-! ### one step of a process thread keeps the demand of its label -/

theorem stepProc_req (s : Sys) (t : Tid) (i : IId) (h : Hints) (deps : List (Name × Cond))
    (ht : t < s.threads.length) (hdeps : deps = (s.icfg i).deps)
    (hr : Req s deps i (s.thr t).pc) (hw : WaitOK s (s.thr t).pc)
    (hle : SysLe t s (stepProc s t i h (s.thr t).pc)) :
    Req (stepProc s t i h (s.thr t).pc) deps i ((stepProc s t i h (s.thr t).pc).thr t).pc := by
  -- a label outside both phases demands nothing
  have other : ∀ s' : Sys, (s'.thr t).pc.isOther = true → Req s' deps i (s'.thr t).pc :=
    fun s' ho => req_other s' deps i _ ho
  -- a launch-phase arm: the demand is "all covered", which only grows
  have launch : (s.thr t).pc.isLaunch = true → ∀ s' : Sys, SysLe t s s' → (s'.thr t).pc.launchOrOther = true →
      Req s' deps i (s'.thr t).pc := by
    intro hl s' hle' hf
    have hcov := hr.1 hl
    unfold Pc.launchOrOther at hf
    rcases Bool.or_eq_true_iff.mp hf with hf | hf
    · refine ⟨fun _ dep hd => covered_mono hle' (hcov dep hd), fun hp => ?_⟩
      cases hpc' : (s'.thr t).pc <;> simp_all [Pc.isLaunch, Pc.isDep]
    · exact other s' hf
  cases hpc : (s.thr t).pc with
  | begin =>
    simp only [stepProc]
    rw [pc_setPc _ _ _ ht]
    exact ⟨(fun hl => by simp [Pc.isLaunch] at hl), fun _ dep hd => Or.inl (by simpa [restOf, hdeps] using hd)⟩
  | depNext rest =>
    simp only [stepProc]
    rw [hpc] at hr
    refine depStep_req s t i h rest deps ht ?_
    intro dep hd
    rcases hr.2 rfl dep hd with e | e | ⟨d, e1, _⟩
    · exact Or.inl (by simpa [restOf] using e)
    · exact Or.inr e
    · simp [curOf] at e1
  | lockDep k c rest =>
    simp only [stepProc]
    rw [hpc] at hr
    refine lookupRunning_req s t i k c rest deps ht ?_
    intro dep hd
    rcases hr.2 rfl dep hd with e | e | ⟨d, e1, _⟩
    · simp only [restOf, List.mem_cons] at e
      rcases e with e | e
      · exact Or.inl e
      · exact Or.inr (Or.inl e)
    · exact Or.inr (Or.inr e)
    · simp [curOf] at e1
  | depLookup d c rest =>
    simp only [stepProc]
    rw [hpc] at hr
    exact armDepLookup_req s t i d c rest deps ht hr
  | waitDone d ok rest =>
    simp only [stepProc]
    rw [hpc] at hr hw
    unfold armWaitDone
    split
    · exact other _ (tail_other (doSkip_other s t i ht))
    · refine pass_req s t i d _ (.waitDone d ok rest) rest deps ht ?_ rfl rfl rfl hr
      simp only [WaitOK] at hw
      cases ok <;> simp [latchB, hw]
  | waitReady d rest =>
    simp only [stepProc]
    rw [hpc] at hr hw
    unfold armWaitReady
    split
    · refine pass_req s t i d .healthy (.waitReady d rest) rest deps ht ?_ rfl rfl rfl hr
      simp only [WaitOK] at hw
      simp [latchB, hw]
    · exact other _ (tail_other (doSkip_other s t i ht))
  | waitLogReady d rest =>
    simp only [stepProc]
    rw [hpc] at hr hw
    unfold armWaitLogReady
    split
    · refine pass_req s t i d .logReady (.waitLogReady d rest) rest deps ht ?_ rfl rfl rfl hr
      simp only [WaitOK] at hw
      simp [latchB, hw]
    · exact other _ (tail_other (doSkip_other s t i ht))
  | waitStarted d rest =>
    simp only [stepProc]
    rw [hpc] at hr hw
    refine pass_req s t i d .started (.waitStarted d rest) rest deps ht ?_ rfl rfl rfl hr
    simp only [WaitOK] at hw
    simp only [latchB, Bool.or_eq_true]
    exact hw
  | procSkipped => simp only [stepProc]; exact other _ (tail_other (armProcSkipped_other s t i ht))
  | runEnter =>
    simp only [stepProc]
    rw [hpc] at hle
    exact launch (by rw [hpc]; rfl) _ (by simpa [stepProc] using hle) (armRunEnter_flow s t i ht)
  | runChecked =>
    simp only [stepProc]
    rw [hpc] at hle
    exact launch (by rw [hpc]; rfl) _ (by simpa [stepProc] using hle) (armRunChecked_flow s t i ht)
  | cmdWait =>
    simp only [stepProc]
    rw [hpc] at hle
    exact launch (by rw [hpc]; rfl) _ (by simpa [stepProc] using hle) (armCmdWait_flow s t i ht hpc)
  | runExited =>
    simp only [stepProc]
    rw [hpc] at hle
    exact launch (by rw [hpc]; rfl) _ (by simpa [stepProc] using hle) (armRunExited_flow s t i ht)
  | backoff =>
    simp only [stepProc]
    rw [hpc] at hle
    exact launch (by rw [hpc]; rfl) _ (by simpa [stepProc] using hle) (armBackoff_flow s t i ht)
  | backoffElapsed =>
    simp only [stepProc]
    rw [hpc] at hle
    exact launch (by rw [hpc]; rfl) _ (by simpa [stepProc] using hle) (doLaunch_flow s t i ht)
  | procRan c => simp only [stepProc]; exact other _ (tail_other (armProcRan_other s t i c ht))
  | procDoneAdded c => simp only [stepProc]; exact other _ (tail_other (armProcDoneAdded_other s t i c ht))
  | lockCleanup => simp only [stepProc]; exact other _ (tail_other (armLockCleanup_other s t i ht))
  | _ =>
    -- labels a process thread never stands at: `stepProc` leaves the state as it is
    simp only [stepProc]
    exact hr

/-! ### the invariant is kept by every step -/

theorem passed_le {t : Tid} {s s' : Sys} (hle : SysLe t s s')
    (h : ∀ i d c, GateEv.passed i d c ∈ s.gate → latchB s c d = true) :
    ∀ i d c, GateEv.passed i d c ∈ s'.gate → latchB s' c d = true := by
  intro i d c he
  rcases hle.gateNew i d c he with e | e
  · have hl := h i d c e
    exact latchB_le (hle.old d (latchB_lt hl)) hl
  · exact e

theorem thr_default (s : Sys) (t : Tid) (h : s.threads.length ≤ t) : s.thr t = { kind := .waiter 0, pc := .finished } := by
  unfold Sys.thr
  simp [List.getD_eq_getElem?_getD, List.getElem?_eq_none h]

theorem lt_of_enabled (s : Sys) (t : Tid) (h : enabledThr s t = true) : t < s.threads.length := by
  apply Classical.byContradiction
  intro hn
  have hd := thr_default s t (Nat.le_of_not_lt hn)
  unfold enabledThr at h
  simp [hd] at h

/-- the frame: threads other than `t`, old or new -/
theorem others_kept {t : Tid} {s s' : Sys} (hle : SysLe t s s') (g : GateInv s) (ht : t < s.threads.length)
    (u : Tid) (hu : u < s'.threads.length) (hut : u ≠ t) (i : IId) (hk : (s'.thr u).kind = .proc i) :
    i < s'.insts.length ∧ Req s' (s'.icfg i).deps i (s'.thr u).pc := by
  by_cases hold : u < s.threads.length
  · have e := hle.tframe u hold hut
    rw [e] at hk ⊢
    obtain ⟨hi, hr⟩ := g.thr u hold i hk
    exact ⟨Nat.lt_of_lt_of_le hi hle.len, by rw [icfg_mono hle hi]; exact req_mono hle hr⟩
  · rcases hle.tnew u (Nat.le_of_not_lt hold) hu with ⟨e1, e2⟩ | e
    · refine ⟨e2 i hk, ?_⟩
      rw [e1]
      exact req_other _ _ _ _ rfl
    · exact absurd e hut

theorem stepThread_inv (s : Sys) (t : Tid) (h : Hints) (g : GateInv s) (ht : t < s.threads.length)
    (hw : WaitOK s (s.thr t).pc) : GateInv (stepThread s t h) := by
  have hle := stepThread_le s t h
  refine ⟨passed_le hle g.passed, ?_⟩
  intro u hu i hk
  by_cases hut : u = t
  · subst hut
    have hkind : ((stepThread s u h).thr u).kind = (s.thr u).kind := by
      rcases hle.tkind with e | e
      · exact e
      · exact absurd ht (Nat.not_lt.mpr e)
    rw [hkind] at hk
    obtain ⟨hi, hr⟩ := g.thr u ht i hk
    refine ⟨Nat.lt_of_lt_of_le hi hle.len, ?_⟩
    rw [icfg_mono hle hi]
    by_cases hss : (s.thr u).pc.isStopSd = true
    · exact req_other _ _ _ _ (tail_other (stepThread_stopSd_other s u h ht hss))
    · have hss' : (s.thr u).pc.isStopSd = false := by simpa using hss
      have e := stepThread_proc s u h i hk hss'
      rw [e]
      exact stepProc_req s u i h _ ht rfl hr hw (by rw [← e]; exact hle)
  · exact others_kept hle g ht u hu hut i hk

theorem runThread_inv (s : Sys) (t : Tid) (h : Hints) (fuel : Nat) (g : GateInv s) (ht : t < s.threads.length)
    (hw : WaitOK s (s.thr t).pc) : GateInv (runThread s t h fuel) := by
  induction fuel generalizing s with
  | zero => exact g
  | succ fuel ih =>
    unfold runThread
    simp only
    have g1 := stepThread_inv s t h g ht hw
    split
    · exact g1
    · split
      · exact g1
      · rename_i _ hp
        exact ih _ g1 (Nat.lt_of_lt_of_le ht (stepThread_le s t h).tlen)
          (waitOK_of_not_parked _ t (by simpa using hp))

theorem gateInv_congr {s s' : Sys} (g : GateInv s) (hg : s'.gate = s.gate) (hi : s'.insts = s.insts)
    (ht : s'.threads = s.threads) (hc : s'.cfgs = s.cfgs) : GateInv s' := by
  have einst : ∀ d, s'.inst d = s.inst d := fun d => by unfold Sys.inst; rw [hi]
  have ethr : ∀ u, s'.thr u = s.thr u := fun u => by unfold Sys.thr; rw [ht]
  have elatch : ∀ c d, latchB s' c d = latchB s c d := fun c d => by unfold latchB; rw [einst]
  have eicfg : ∀ i, s'.icfg i = s.icfg i := fun i => by unfold Sys.icfg Sys.cfg Sys.nameOf; rw [hc, einst]
  have ecov : ∀ i dep, Covered s i dep → Covered s' i dep := fun i dep h => by
    unfold Covered at h ⊢; rw [hg]; exact h
  refine ⟨fun i d c he => by rw [elatch]; exact g.passed i d c (by rw [← hg]; exact he), ?_⟩
  intro u hu i hk
  rw [ethr] at hk ⊢
  obtain ⟨h1, h2⟩ := g.thr u (by rw [← ht]; exact hu) i hk
  refine ⟨by rw [hi]; exact h1, ?_⟩
  rw [eicfg]
  refine ⟨fun hl dep hd => ecov i dep (h2.1 hl dep hd), fun hp dep hd => ?_⟩
  rcases h2.2 hp dep hd with e | e | ⟨d, e1, e2⟩
  · exact Or.inl e
  · exact Or.inr (Or.inl (ecov i dep e))
  · exact Or.inr (Or.inr ⟨d, e1, by rw [hg]; exact e2⟩)

/-- an external event leaves the thread table as it is or appends one non-process thread -/
theorem ext_threads (s : Sys) (c : Choice) (h : Hints) (hc : ∀ t, c ≠ .run t) :
    (step s c h).threads = s.threads ∨
    ∃ k, (step s c h).threads = s.threads ++ [{ kind := k }] ∧ ∀ i, k ≠ .proc i := by
  unfold step
  simp only
  cases c with
  | run t => exact absurd rfl (hc t)
  | exit n code =>
    left; simp only; split <;> rfl
  | line n ready =>
    left; simp only; split
    · split <;> rfl
    · rfl
  | probe n ok =>
    left; simp only; split
    · split
      · rfl
      · split <;> rfl
    · rfl
  | probeFatal id n =>
    simp only; split
    · right; exact ⟨.probe id n, rfl, fun i hk => by cases hk⟩
    · left; rfl
  | killTimeout n =>
    left; simp only; split <;> rfl
  | call id op =>
    right; exact ⟨.api id op, rfl, fun i hk => by cases hk⟩

/-- an external event creates no process thread -/
theorem ext_new_not_proc (s : Sys) (c : Choice) (h : Hints) (hc : ∀ t, c ≠ .run t)
    (u : Tid) (h1 : s.threads.length ≤ u) (h2 : u < (step s c h).threads.length) (i : IId) :
    ((step s c h).thr u).kind ≠ .proc i := by
  rcases ext_threads s c h hc with e | ⟨k, e, hk⟩
  · rw [e] at h2; exact absurd h2 (Nat.not_lt.mpr h1)
  · have hu : u = s.threads.length := by
      rw [e] at h2
      simp only [List.length_append, List.length_singleton] at h2
      exact Nat.le_antisymm (Nat.le_of_lt_succ h2) h1
    subst hu
    unfold Sys.thr
    rw [e]
    simp only [List.getD_eq_getElem?_getD, List.getElem?_append_right (Nat.le_refl _), Nat.sub_self,
      List.getElem?_cons_zero, Option.getD_some]
    exact hk i

/-- an external event: instances move forward; the only thread it may add is not a process thread -/
theorem ext_inv (s : Sys) (c : Choice) (h : Hints) (g : GateInv s) (hc : ∀ t, c ≠ .run t) : GateInv (step s c h) := by
  have hle := step_le s c h
  have htid : Choice.tid s c = s.threads.length := by
    cases c with
    | run t => exact absurd rfl (hc t)
    | _ => rfl
  refine ⟨passed_le hle g.passed, ?_⟩
  intro u hu i hk
  by_cases hold : u < s.threads.length
  · have hut : u ≠ Choice.tid s c := by rw [htid]; exact Nat.ne_of_lt hold
    have e := hle.tframe u hold hut
    rw [e] at hk ⊢
    obtain ⟨hi, hr⟩ := g.thr u hold i hk
    exact ⟨Nat.lt_of_lt_of_le hi hle.len, by rw [icfg_mono hle hi]; exact req_mono hle hr⟩
  · exact absurd hk (ext_new_not_proc s c h hc u (Nat.le_of_not_lt hold) hu i)

theorem step_inv (s : Sys) (c : Choice) (h : Hints) (g : GateInv s) : GateInv (step s c h) := by
  cases c with
  | run t =>
    unfold step
    simp only
    have g0 : GateInv ({ s with obs := [] } : Sys) := gateInv_congr g rfl rfl rfl rfl
    split
    · rename_i hen
      exact runThread_inv _ t h _ g0 (lt_of_enabled _ t hen) (waitOK_of_enabled _ t hen)
    · exact g0
  | exit n code => exact ext_inv s _ h g (by intro t ht; cases ht)
  | line n ready => exact ext_inv s _ h g (by intro t ht; cases ht)
  | probe n ok => exact ext_inv s _ h g (by intro t ht; cases ht)
  | probeFatal id n => exact ext_inv s _ h g (by intro t ht; cases ht)
  | killTimeout n => exact ext_inv s _ h g (by intro t ht; cases ht)
  | call id op => exact ext_inv s _ h g (by intro t ht; cases ht)

theorem init_inv (gr : Gran) (o : Bool) (cfgs : List Cfg) : GateInv (init gr o cfgs) :=
  ⟨fun i d c h => by simp [init] at h, fun u hu => by simp [init] at hu⟩

/-- **The gate invariant holds in every reachable state.** -/
theorem reach_gateInv (gr : Gran) (o : Bool) (cfgs : List Cfg) {s : Sys} (h : Reach (init gr o cfgs) s) : GateInv s := by
  induction h with
  | init => exact init_inv gr o cfgs
  | step c hh _ ih => exact step_inv _ c hh ih

/-! ### once past both phases, a process thread never comes back (skipped = never launched) -/

theorem stepProc_tail (s : Sys) (t : Tid) (i : IId) (h : Hints) (ht : t < s.threads.length)
    (hp : (s.thr t).pc.isTail = true) : ((stepProc s t i h (s.thr t).pc).thr t).pc.isTail = true := by
  cases hpc : (s.thr t).pc with
  | procSkipped => simp only [stepProc]; exact armProcSkipped_other s t i ht
  | procRan c => simp only [stepProc]; exact armProcRan_other s t i c ht
  | procDoneAdded c => simp only [stepProc]; exact armProcDoneAdded_other s t i c ht
  | lockCleanup => simp only [stepProc]; exact armLockCleanup_other s t i ht
  | begin => rw [hpc] at hp; cases hp
  | depNext _ => rw [hpc] at hp; cases hp
  | lockDep _ _ _ => rw [hpc] at hp; cases hp
  | depLookup _ _ _ => rw [hpc] at hp; cases hp
  | waitDone _ _ _ => rw [hpc] at hp; cases hp
  | waitReady _ _ => rw [hpc] at hp; cases hp
  | waitLogReady _ _ => rw [hpc] at hp; cases hp
  | waitStarted _ _ => rw [hpc] at hp; cases hp
  | runEnter => rw [hpc] at hp; cases hp
  | runChecked => rw [hpc] at hp; cases hp
  | cmdWait => rw [hpc] at hp; cases hp
  | runExited => rw [hpc] at hp; cases hp
  | backoff => rw [hpc] at hp; cases hp
  | backoffElapsed => rw [hpc] at hp; cases hp
  | _ => simp only [stepProc]; rw [hpc] at hp; rw [hpc]; exact hp

theorem stepThread_tail (s : Sys) (t : Tid) (h : Hints) (i : IId) (ht : t < s.threads.length)
    (hk : (s.thr t).kind = .proc i) (hp : (s.thr t).pc.isTail = true) :
    ((stepThread s t h).thr t).pc.isTail = true := by
  by_cases hss : (s.thr t).pc.isStopSd = true
  · exact stepThread_stopSd_other s t h ht hss
  · rw [stepThread_proc s t h i hk (by simpa using hss)]
    exact stepProc_tail s t i h ht hp

theorem runThread_tail (s : Sys) (t : Tid) (h : Hints) (fuel : Nat) (i : IId) (ht : t < s.threads.length)
    (hk : (s.thr t).kind = .proc i) (hp : (s.thr t).pc.isTail = true) :
    ((runThread s t h fuel).thr t).kind = .proc i ∧ ((runThread s t h fuel).thr t).pc.isTail = true := by
  induction fuel generalizing s with
  | zero => exact ⟨hk, hp⟩
  | succ fuel ih =>
    unfold runThread
    simp only
    have hle := stepThread_le s t h
    have hk1 : ((stepThread s t h).thr t).kind = .proc i := by
      rcases hle.tkind with e | e
      · rw [e]; exact hk
      · exact absurd ht (Nat.not_lt.mpr e)
    have hp1 := stepThread_tail s t h i ht hk hp
    split
    · exact ⟨hk1, hp1⟩
    · split
      · exact ⟨hk1, hp1⟩
      · exact ih _ (Nat.lt_of_lt_of_le ht hle.tlen) hk1 hp1

/-- one step of the system, whoever takes it -/
theorem step_tail (s : Sys) (c : Choice) (h : Hints) (t : Tid) (i : IId) (ht : t < s.threads.length)
    (hk : (s.thr t).kind = .proc i) (hp : (s.thr t).pc.isTail = true) :
    t < (step s c h).threads.length ∧ ((step s c h).thr t).kind = .proc i ∧ ((step s c h).thr t).pc.isTail = true := by
  have hle := step_le s c h
  refine ⟨Nat.lt_of_lt_of_le ht hle.tlen, ?_⟩
  by_cases hself : c = .run t
  · subst hself
    unfold step
    simp only
    split
    · exact runThread_tail _ t h _ i ht hk hp
    · exact ⟨hk, hp⟩
  · have hne : t ≠ Choice.tid s c := by
      cases c with
      | run u => simp only [Choice.tid]; intro e; exact hself (by rw [e])
      | _ => simp only [Choice.tid]; exact Nat.ne_of_lt ht
    rw [hle.tframe t ht hne]
    exact ⟨hk, hp⟩

/-- **A process thread that has left the dependency and launch phases never launches again**: in
    every continuation it stays past both phases. A thread gets there by being skipped (a wait
    ended with the condition unmet), by a start failure, or by the end of its run loop. -/
theorem tail_forever {s s' : Sys} (hr : Reach s s') (t : Tid) (i : IId) (ht : t < s.threads.length)
    (hk : (s.thr t).kind = .proc i) (hp : (s.thr t).pc.isTail = true) :
    t < s'.threads.length ∧ (s'.thr t).kind = .proc i ∧ (s'.thr t).pc.isTail = true := by
  induction hr with
  | init => exact ⟨ht, hk, hp⟩
  | step c hh _ ih => exact step_tail _ c hh t i ih.1 ih.2.1 ih.2.2

end PC.Sup
