import PC.Proofs.SupQuiet
import PC.Proofs.SupGate
/-! Ordered shutdown (C12), globally: the wait group of a stopper counts the `depwaiter` threads it
    created that have not finished, so a stopper passes its wait only when every one of them has
    finished — and a `depwaiter` finishes only when the dependent it watches is done. -/
namespace PC.Sup

/-! ### counting in lists -/

theorem countP_le_pointwise {α : Type} (p : α → Bool) :
    ∀ (l' l : List α), (∀ (u : Nat) x', l'[u]? = some x' → p x' = true → ∃ x, l[u]? = some x ∧ p x = true) →
      l'.countP p ≤ l.countP p := by
  intro l'
  induction l' with
  | nil => intro l _; simp
  | cons a r ih =>
    intro l H
    cases l with
    | nil =>
      have ha : p a = false := by
        cases hpa : p a with
        | false => rfl
        | true => obtain ⟨x, hx, _⟩ := H 0 a rfl hpa; simp at hx
      have hr := ih [] (fun u x' h1 h2 => by obtain ⟨x, hx, _⟩ := H (u + 1) x' (by simpa using h1) h2; simp at hx)
      simp only [List.countP_cons, ha, List.countP_nil] at hr ⊢
      simpa using hr
    | cons b m =>
      have hr := ih m (fun u x' h1 h2 => by
        obtain ⟨x, hx, hp⟩ := H (u + 1) x' (by simpa using h1) h2
        exact ⟨x, by simpa using hx, hp⟩)
      simp only [List.countP_cons]
      cases hpa : p a with
      | false => simp; omega
      | true =>
        obtain ⟨x, hx, hp⟩ := H 0 a rfl hpa
        simp at hx; subst hx
        simp [hp]; omega

theorem countP_modify_same {α : Type} (p : α → Bool) (f : α → α) :
    ∀ (l : List α) (t : Nat), (∀ x, l[t]? = some x → p (f x) = p x) → (l.modify t f).countP p = l.countP p := by
  intro l
  induction l with
  | nil => intro t _; simp
  | cons a r ih =>
    intro t H
    cases t with
    | zero =>
      have := H a rfl
      simp [List.countP_cons, this]
    | succ t =>
      have := ih t (fun x hx => H x (by simpa using hx))
      simp [List.countP_cons, this]

theorem countP_modify_drop {α : Type} (p : α → Bool) (f : α → α) :
    ∀ (l : List α) (t : Nat), t < l.length → (∀ x, l[t]? = some x → p x = true ∧ p (f x) = false) →
      (l.modify t f).countP p + 1 = l.countP p := by
  intro l
  induction l with
  | nil => intro t ht; simp at ht
  | cons a r ih =>
    intro t ht H
    cases t with
    | zero =>
      obtain ⟨h1, h2⟩ := H a rfl
      simp [List.modify_cons, h1, h2]
    | succ t =>
      have := ih t (by simpa using ht) (fun x hx => H x (by simpa using hx))
      rw [List.modify_succ_cons, List.countP_cons, List.countP_cons]
      omega

/-! ### the wait-group table -/

theorem pad_getD (l : List Nat) (n k : Nat) : (l ++ List.replicate n 0)[k]?.getD 0 = l[k]?.getD 0 := by
  by_cases h : k < l.length
  · rw [List.getElem?_append_left h]
  · rw [List.getElem?_append_right (Nat.le_of_not_lt h), List.getElem?_eq_none (Nat.le_of_not_lt h), List.getElem?_replicate]
    split <;> rfl

theorem wgAdd_getD (l : List Nat) (i k : Nat) : (wgAdd l i).getD k 0 = l.getD k 0 + (if k = i then 1 else 0) := by
  unfold wgAdd
  simp only [List.getD_eq_getElem?_getD, List.getElem?_modify]
  by_cases hk : k = i
  · subst hk
    have hlt : k < (l ++ List.replicate (k + 1 - l.length) 0).length := by simp; omega
    have e : (l ++ List.replicate (k + 1 - l.length) 0)[k]? = some ((l ++ List.replicate (k + 1 - l.length) 0)[k]?.getD 0) := by
      rw [List.getElem?_eq_getElem hlt]; rfl
    rw [e, pad_getD]
    simp
  · have : ¬ i = k := fun e => hk e.symm
    simp only [this, ↓reduceIte, hk, Nat.add_zero, id_map']
    exact pad_getD l _ k

theorem wgDone_getD (l : List Nat) (i k : Nat) : (wgDone l i).getD k 0 = if k = i then l.getD k 0 - 1 else l.getD k 0 := by
  unfold wgDone
  simp only [List.getD_eq_getElem?_getD, List.getElem?_modify]
  by_cases hk : k = i
  · subst hk
    cases h : l[k]? <;> simp
  · have : ¬ i = k := fun e => hk e.symm
    simp [hk, this]

/-! ### open depwaiters -/

/-- the thread is a `depwaiter` of the stopper of `i` that has not finished -/
def Thr.openFor (i : IId) (th : Thr) : Bool :=
  match th.kind with
  | .depwaiter o _ => o == i && th.pc != .finished
  | _ => false

def openDw (s : Sys) (i : IId) : Nat := s.threads.countP (Thr.openFor i)

theorem thr_of_get {s : Sys} {u : Tid} {x : Thr} (h : s.threads[u]? = some x) : s.thr u = x := by
  unfold Sys.thr; simp [List.getD_eq_getElem?_getD, h]

theorem get_of_lt_thr (s : Sys) (u : Tid) (h : u < s.threads.length) : s.threads[u]? = some (s.thr u) := by
  unfold Sys.thr; simp [List.getD_eq_getElem?_getD, h]

theorem lt_of_get {s : Sys} {u : Tid} {x : Thr} (h : s.threads[u]? = some x) : u < s.threads.length := by
  rcases Nat.lt_or_ge u s.threads.length with h1 | h1
  · exact h1
  · rw [List.getElem?_eq_none h1] at h; cases h

theorem openFor_not_dw (i : IId) (th : Thr) (h : th.kind.isDw = false) : Thr.openFor i th = false := by
  unfold Thr.openFor; cases hk : th.kind <;> simp_all [Kind.isDw]

/-- a quiet step by a thread that has not finished does not increase any count -/
theorem open_le_of_quiet {t : Tid} {s s' : Sys} (hle : SysLe t s s') (hq : Quiet s s') (ht : t < s.threads.length)
    (hpc : (s.thr t).pc ≠ .finished) (i : IId) : openDw s' i ≤ openDw s i := by
  unfold openDw
  apply countP_le_pointwise
  intro u x' hx' hp
  have hu' := lt_of_get hx'
  have ex' := thr_of_get hx'
  by_cases hu : u < s.threads.length
  · refine ⟨s.thr u, get_of_lt_thr s u hu, ?_⟩
    by_cases hut : u = t
    · subst hut
      have hk := hq.kinds u hu
      rw [ex'] at hk
      unfold Thr.openFor at hp ⊢
      rw [hk] at hp
      cases hkk : (s.thr u).kind with
      | depwaiter o j =>
        rw [hkk] at hp
        simp only [Bool.and_eq_true, beq_iff_eq, bne_iff_ne, ne_eq] at hp ⊢
        exact ⟨hp.1, hpc⟩
      | _ => rw [hkk] at hp; simp at hp
    · have e := hle.tframe u hu hut
      rw [ex'] at e
      rw [← e]; exact hp
  · have hn := hq.nodw u (Nat.le_of_not_lt hu) hu'
    rw [ex'] at hn
    rw [openFor_not_dw i x' hn] at hp
    cases hp

/-! ### the invariant -/

structure DwInv (s : Sys) : Prop where
  /-- the wait group of the stopper of `i` is at least the number of its unfinished `depwaiter`s -/
  cnt : ∀ i, openDw s i ≤ s.wgOf i
  /-- a `depwaiter` of dependent `j` is at `begin`, waits for `j` to be done, or has finished — and
      then `j` is done -/
  shape : ∀ u o j, (s.thr u).kind = .depwaiter o j →
    (s.thr u).pc = .begin ∨ (s.thr u).pc = .waitDoneThen j ∨ ((s.thr u).pc = .finished ∧ (s.inst j).done = true)

theorem done_mono {t : Tid} {s s' : Sys} (hle : SysLe t s s') (j : IId) (h : (s.inst j).done = true) : (s'.inst j).done = true := by
  have hj : j < s.insts.length := by
    apply Classical.byContradiction
    intro hn
    rw [inst_default' s j (Nat.le_of_not_lt hn)] at h
    cases h
  exact (hle.old j hj).done h

theorem mustPark_waitDoneThen (s : Sys) (t : Tid) (j : IId) (h : (s.thr t).pc = .waitDoneThen j) : mustPark s t = true := by
  unfold mustPark; simp [h, Pc.isYield]

theorem mustPark_finished (s : Sys) (t : Tid) (h : (s.thr t).pc = .finished) : mustPark s t = true := by
  unfold mustPark; simp [h]

theorem enabled_not_finished (s : Sys) (t : Tid) (h : enabledThr s t = true) : (s.thr t).pc ≠ .finished := by
  intro hp; unfold enabledThr at h; simp [hp] at h

theorem stepThread_dw (s : Sys) (t : Tid) (h : Hints) (o j : IId) (hk : (s.thr t).kind = .depwaiter o j)
    (hp : (s.thr t).pc = .begin ∨ ∃ j', (s.thr t).pc = .waitDoneThen j') :
    stepThread s t h = stepDepwaiter s t o j (s.thr t).pc := by
  unfold stepThread
  rcases hp with hp | ⟨j', hp⟩ <;> simp [hp, hk]

/-- the shape part, for any thread step -/
theorem shape_step (s : Sys) (t : Tid) (h : Hints) (g : DwInv s) (ht : t < s.threads.length)
    (hrun : enabledThr s t = true ∨ mustPark s t = false) :
    ∀ u o j, ((stepThread s t h).thr u).kind = .depwaiter o j →
      ((stepThread s t h).thr u).pc = .begin ∨ ((stepThread s t h).thr u).pc = .waitDoneThen j ∨
        (((stepThread s t h).thr u).pc = .finished ∧ ((stepThread s t h).inst j).done = true) := by
  have hle := stepThread_le s t h
  intro u o j hk
  by_cases hut : u = t
  · subst hut
    have hkind : ((stepThread s u h).thr u).kind = (s.thr u).kind := by
      rcases hle.tkind with e | e
      · exact e
      · exact absurd ht (Nat.not_lt.mpr e)
    rw [hkind] at hk
    rcases g.shape u o j hk with hb | hw | ⟨hf, _⟩
    · rw [stepThread_dw s u h o j hk (Or.inl hb), hb]
      simp only [stepDepwaiter]
      right; left
      exact pc_setPc _ _ _ ht
    · have hen : (s.inst j).done = true := by
        rcases hrun with he | hm
        · unfold enabledThr at he; simpa [hw] using he
        · rw [mustPark_waitDoneThen s u j hw] at hm; cases hm
      rw [stepThread_dw s u h o j hk (Or.inr ⟨j, hw⟩), hw]
      simp only [stepDepwaiter]
      right; right
      exact ⟨pc_setPc _ _ _ ht, hen⟩
    · exfalso
      rcases hrun with he | hm
      · exact enabled_not_finished s u he hf
      · rw [mustPark_finished s u hf] at hm; cases hm
  · by_cases hu : u < s.threads.length
    · have e := hle.tframe u hu hut
      rw [e] at hk ⊢
      rcases g.shape u o j hk with hb | hw | ⟨hf, hd⟩
      · exact Or.inl hb
      · exact Or.inr (Or.inl hw)
      · exact Or.inr (Or.inr ⟨hf, done_mono hle j hd⟩)
    · by_cases hu' : u < (stepThread s t h).threads.length
      · rcases hle.tnew u (Nat.le_of_not_lt hu) hu' with ⟨e1, _⟩ | e
        · exact Or.inl e1
        · exact absurd e hut
      · rw [thr_default _ u (Nat.le_of_not_lt hu')] at hk; cases hk

/-! ### the two arms that touch a wait group -/

theorem openDw_spawn (s : Sys) (k : Kind) (i : IId) :
    openDw (s.spawn k) i = openDw s i + (if Thr.openFor i { kind := k } then 1 else 0) := by
  unfold openDw Sys.spawn
  simp [List.countP_append, List.countP_cons]

theorem cnt_begin_fold (i0 : IId) (l : List IId) (s : Sys) (h : ∀ i, openDw s i ≤ s.wgOf i) :
    ∀ i, openDw (l.foldl (fun s j => ({ s with depWg := wgAdd s.depWg i0 }).spawn (.depwaiter i0 j)) s) i ≤
      (l.foldl (fun s j => ({ s with depWg := wgAdd s.depWg i0 }).spawn (.depwaiter i0 j)) s).wgOf i := by
  induction l generalizing s with
  | nil => exact h
  | cons j r ih =>
    simp only [List.foldl_cons]
    apply ih
    intro i
    rw [openDw_spawn]
    have e1 : (({ s with depWg := wgAdd s.depWg i0 } : Sys).spawn (.depwaiter i0 j)).wgOf i = s.wgOf i + (if i = i0 then 1 else 0) := by
      unfold Sys.wgOf Sys.spawn; simp only; exact wgAdd_getD _ _ _
    have e2 : openDw ({ s with depWg := wgAdd s.depWg i0 } : Sys) i = openDw s i := rfl
    rw [e1, e2]
    have := h i
    by_cases hi : i = i0
    · subst hi; simp [Thr.openFor]; omega
    · have : ¬ i0 = i := fun e => hi e.symm
      simp [Thr.openFor, hi, this]; omega

theorem cnt_stopperBegin (s : Sys) (t : Tid) (i : IId) (g : DwInv s) (ht : t < s.threads.length)
    (hk : (s.thr t).kind = .stopper i) : ∀ i', openDw (armStopperBegin s t i) i' ≤ (armStopperBegin s t i).wgOf i' := by
  unfold armStopperBegin
  simp only
  intro i'
  have hfold := cnt_begin_fold i (revDepsOf s (s.nameOf i)) s g.cnt i'
  generalize hF : (revDepsOf s (s.nameOf i)).foldl (fun s j => ({ s with depWg := wgAdd s.depWg i }).spawn (.depwaiter i j)) s = F at hfold ⊢
  have hthr := foldl_spawn_thr (revDepsOf s (s.nameOf i)) (fun j => Kind.depwaiter i j)
    (fun s => { s with depWg := wgAdd s.depWg i }) (fun _ => rfl) s t ht
  rw [hF] at hthr
  have e1 : openDw (F.setPc t (.depWg i)) i' = openDw F i' := by
    unfold openDw Sys.setPc
    apply countP_modify_same
    intro x hx
    have := thr_of_get hx
    rw [hthr.2] at this
    unfold Thr.openFor
    rw [← this]; simp [hk]
  have e2 : (F.setPc t (.depWg i)).wgOf i' = F.wgOf i' := rfl
  rw [e1, e2]; exact hfold

theorem cnt_dwFinish (s : Sys) (t : Tid) (o j : IId) (g : DwInv s) (ht : t < s.threads.length)
    (hk : (s.thr t).kind = .depwaiter o j) (hp : (s.thr t).pc ≠ .finished) :
    ∀ i, openDw (({ s with depWg := wgDone s.depWg o } : Sys).setPc t .finished) i ≤
      (({ s with depWg := wgDone s.depWg o } : Sys).setPc t .finished).wgOf i := by
  intro i
  have e2 : (({ s with depWg := wgDone s.depWg o } : Sys).setPc t .finished).wgOf i = if i = o then s.wgOf i - 1 else s.wgOf i := by
    unfold Sys.wgOf Sys.setPc; simp only; exact wgDone_getD _ _ _
  rw [e2]
  have hc := g.cnt i
  by_cases hi : i = o
  · subst hi
    have e1 : openDw (({ s with depWg := wgDone s.depWg i } : Sys).setPc t .finished) i + 1 = openDw s i := by
      unfold openDw Sys.setPc
      simp only
      apply countP_modify_drop _ _ _ _ ht
      intro x hx
      have := thr_of_get hx
      subst this
      unfold Thr.openFor
      simp [hk, hp]
    simp only [↓reduceIte]
    omega
  · have e1 : openDw (({ s with depWg := wgDone s.depWg o } : Sys).setPc t .finished) i = openDw s i := by
      unfold openDw Sys.setPc
      simp only
      apply countP_modify_same
      intro x hx
      have := thr_of_get hx
      subst this
      unfold Thr.openFor
      have : ¬ o = i := fun e => hi e.symm
      simp [hk, this]
    rw [e1]; simp [hi]; exact hc

/-! ### every step keeps the invariant -/

theorem stepThread_stopperBegin (s : Sys) (t : Tid) (h : Hints) (i : IId) (hk : (s.thr t).kind = .stopper i)
    (hp : (s.thr t).pc = .begin) : stepThread s t h = armStopperBegin s t i := by
  unfold stepThread; simp [hp, hk, stepStopper]

theorem stepThread_dwInv (s : Sys) (t : Tid) (h : Hints) (g : DwInv s) (ht : t < s.threads.length)
    (hrun : enabledThr s t = true ∨ mustPark s t = false) : DwInv (stepThread s t h) := by
  refine ⟨?_, shape_step s t h g ht hrun⟩
  have hnf : (s.thr t).pc ≠ .finished := by
    rcases hrun with he | hm
    · exact enabled_not_finished s t he
    · intro hf; rw [mustPark_finished s t hf] at hm; cases hm
  by_cases hsp : Special s t
  · rcases hsp with ⟨i, hk, hp⟩ | ⟨o, i, j, hk, hp⟩
    · rw [stepThread_stopperBegin s t h i hk hp]
      exact cnt_stopperBegin s t i g ht hk
    · rw [stepThread_dw s t h o i hk (Or.inr ⟨j, hp⟩), hp]
      simp only [stepDepwaiter]
      exact cnt_dwFinish s t o i g ht hk hnf
  · intro i
    have hq := stepThread_q s t h hsp
    have hle := stepThread_le s t h
    have h1 := open_le_of_quiet hle hq ht hnf i
    have h2 : (stepThread s t h).wgOf i = s.wgOf i := by unfold Sys.wgOf; rw [hq.depWg]
    rw [h2]; exact Nat.le_trans h1 (g.cnt i)

theorem runThread_dwInv (s : Sys) (t : Tid) (h : Hints) (fuel : Nat) (g : DwInv s) (ht : t < s.threads.length)
    (hrun : enabledThr s t = true ∨ mustPark s t = false) : DwInv (runThread s t h fuel) := by
  induction fuel generalizing s with
  | zero => exact g
  | succ n ih =>
    unfold runThread
    simp only
    have g1 := stepThread_dwInv s t h g ht hrun
    have ht1 : t < (stepThread s t h).threads.length := Nat.lt_of_lt_of_le ht (stepThread_le s t h).tlen
    split
    · exact g1
    · split
      · exact g1
      · rename_i _ hm
        exact ih _ g1 ht1 (Or.inr (by simpa using hm))

theorem dwInv_congr {s s' : Sys} (g : DwInv s) (ht : s'.threads = s.threads) (hi : s'.insts = s.insts)
    (hw : s'.depWg = s.depWg) : DwInv s' := by
  have e1 : ∀ u, s'.thr u = s.thr u := fun u => by unfold Sys.thr; rw [ht]
  have e2 : ∀ j, s'.inst j = s.inst j := fun j => by unfold Sys.inst; rw [hi]
  refine ⟨fun i => ?_, fun u o j hk => ?_⟩
  · have : openDw s' i = openDw s i := by unfold openDw; rw [ht]
    rw [this]; unfold Sys.wgOf; rw [hw]; exact g.cnt i
  · rw [e1] at hk ⊢; rw [e2]; exact g.shape u o j hk

/-- external events do not touch wait groups -/
theorem ext_depWg (s : Sys) (c : Choice) (h : Hints) (hc : ∀ t, c ≠ .run t) : (step s c h).depWg = s.depWg := by
  unfold step
  simp only
  cases c with
  | run t => exact absurd rfl (hc t)
  | exit n code => simp only; split <;> rfl
  | line n ready =>
    simp only; split
    · split <;> rfl
    · rfl
  | probe n ok =>
    simp only; split
    · split
      · rfl
      · split <;> rfl
    · rfl
  | probeFatal id n => simp only; split <;> rfl
  | killTimeout n => simp only; split <;> rfl
  | call id op => rfl

theorem ext_new_not_dw (s : Sys) (c : Choice) (h : Hints) (hc : ∀ t, c ≠ .run t) :
    (step s c h).threads = s.threads ∨
    ∃ k, (step s c h).threads = s.threads ++ [{ kind := k }] ∧ k.isDw = false := by
  unfold step
  simp only
  cases c with
  | run t => exact absurd rfl (hc t)
  | exit n code => left; simp only; split <;> rfl
  | line n ready =>
    left; simp only; split
    · split <;> rfl
    · rfl
  | probe n ok =>
    left; simp only; split
    · split
      · rfl
      · split <;> rfl
    · rfl
  | probeFatal id n =>
    simp only; split
    · right; exact ⟨.probe id n, rfl, rfl⟩
    · left; rfl
  | killTimeout n => left; simp only; split <;> rfl
  | call id op => right; exact ⟨.api id op, rfl, rfl⟩

theorem ext_dwInv (s : Sys) (c : Choice) (h : Hints) (g : DwInv s) (hc : ∀ t, c ≠ .run t) : DwInv (step s c h) := by
  have hle := step_le s c h
  have htid : Choice.tid s c = s.threads.length := by
    cases c with
    | run t => exact absurd rfl (hc t)
    | _ => rfl
  rw [htid] at hle
  have hw := ext_depWg s c h hc
  have hold : ∀ u, u < s.threads.length → (step s c h).thr u = s.thr u :=
    fun u hu => hle.tframe u hu (Nat.ne_of_lt hu)
  refine ⟨fun i => ?_, fun u o j hk => ?_⟩
  · have hcount : openDw (step s c h) i = openDw s i := by
      rcases ext_new_not_dw s c h hc with e | ⟨k, e, hkk⟩
      · unfold openDw; rw [e]
      · unfold openDw; rw [e]
        simp [List.countP_append, openFor_not_dw i { kind := k } hkk]
    rw [hcount]; unfold Sys.wgOf; rw [hw]; exact g.cnt i
  · by_cases hu : u < s.threads.length
    · rw [hold u hu] at hk ⊢
      rcases g.shape u o j hk with hb | hwt | ⟨hf, hd⟩
      · exact Or.inl hb
      · exact Or.inr (Or.inl hwt)
      · exact Or.inr (Or.inr ⟨hf, done_mono hle j hd⟩)
    · exfalso
      rcases ext_new_not_dw s c h hc with e | ⟨k, e, hkk⟩
      · have : (step s c h).thr u = s.thr u := by unfold Sys.thr; rw [e]
        rw [this, thr_default s u (Nat.le_of_not_lt hu)] at hk; cases hk
      · by_cases hu2 : u = s.threads.length
        · subst hu2
          have : (step s c h).thr s.threads.length = { kind := k } := by
            unfold Sys.thr; rw [e]; simp [List.getD_eq_getElem?_getD]
          rw [this] at hk
          simp only at hk
          rw [hk] at hkk; cases hkk
        · have : (step s c h).threads.length ≤ u := by
            rw [e]; simp only [List.length_append, List.length_singleton]
            exact Nat.succ_le_of_lt (Nat.lt_of_le_of_ne (Nat.le_of_not_lt hu) (Ne.symm hu2))
          rw [thr_default _ u this] at hk; cases hk

theorem step_dwInv (s : Sys) (c : Choice) (h : Hints) (g : DwInv s) : DwInv (step s c h) := by
  cases c with
  | run t =>
    unfold step
    simp only
    split
    · rename_i hen
      have g0 : DwInv ({ s with obs := [] } : Sys) := dwInv_congr g rfl rfl rfl
      exact runThread_dwInv _ t h _ g0 (lt_of_enabled _ t hen) (Or.inl hen)
    · exact dwInv_congr g rfl rfl rfl
  | exit n code => exact ext_dwInv s _ h g (fun t hc => by cases hc)
  | line n ready => exact ext_dwInv s _ h g (fun t hc => by cases hc)
  | probe n ok => exact ext_dwInv s _ h g (fun t hc => by cases hc)
  | probeFatal id n => exact ext_dwInv s _ h g (fun t hc => by cases hc)
  | killTimeout n => exact ext_dwInv s _ h g (fun t hc => by cases hc)
  | call id op => exact ext_dwInv s _ h g (fun t hc => by cases hc)

theorem init_dwInv (gr : Gran) (o : Bool) (cfgs : List Cfg) : DwInv (init gr o cfgs) := by
  refine ⟨fun i => by simp [openDw, init], fun u o' j hk => ?_⟩
  have : (init gr o cfgs).thr u = { kind := .waiter 0, pc := .finished } := thr_default _ u (by simp [init])
  rw [this] at hk; cases hk

/-- **The wait-group invariant holds in every reachable state.** -/
theorem reach_dwInv (gr : Gran) (o : Bool) (cfgs : List Cfg) {s : Sys} (h : Reach (init gr o cfgs) s) : DwInv s := by
  induction h with
  | init => exact init_dwInv gr o cfgs
  | step c hh _ ih => exact step_dwInv _ c hh ih

/-! ### consequences -/

/-- when the stopper of `i` may pass its wait group, each of its `depwaiter`s has finished and the
    dependent it watched is done -/
theorem pass_after_dependents {s : Sys} (g : DwInv s) (u : Tid) (i : IId)
    (hpc : (s.thr u).pc = .depWg i) (hen : enabledThr s u = true) :
    ∀ w j, (s.thr w).kind = .depwaiter i j → (s.thr w).pc = .finished ∧ (s.inst j).done = true := by
  intro w j hk
  have hz : s.wgOf i = 0 := by unfold enabledThr at hen; simpa [hpc] using hen
  have hc : openDw s i = 0 := Nat.eq_zero_of_le_zero (hz ▸ g.cnt i)
  have hw : w < s.threads.length := by
    apply Classical.byContradiction
    intro hn
    rw [thr_default s w (Nat.le_of_not_lt hn)] at hk; cases hk
  have hno : Thr.openFor i (s.thr w) = false := by
    unfold openDw at hc
    rw [List.countP_eq_zero] at hc
    have hm : s.thr w ∈ s.threads := List.mem_of_getElem? (get_of_lt_thr s w hw)
    simpa using hc _ hm
  have hfin : (s.thr w).pc = .finished := by
    unfold Thr.openFor at hno
    rw [hk] at hno
    simpa using hno
  rcases g.shape w i j hk with hb | hwt | ⟨_, hd⟩
  · rw [hfin] at hb; cases hb
  · rw [hfin] at hwt; cases hwt
  · exact ⟨hfin, hd⟩

/-- spawning one thread per element: every element gets its thread -/
theorem foldl_spawn_mem (l : List IId) (mk : IId → Kind) (g : Sys → Sys) (hg : ∀ s, (g s).threads = s.threads) (s : Sys) :
    ∀ j ∈ l, ∃ w, w < (l.foldl (fun s i => (g s).spawn (mk i)) s).threads.length ∧
      ((l.foldl (fun s i => (g s).spawn (mk i)) s).thr w).kind = mk j := by
  induction l generalizing s with
  | nil => intro j hj; cases hj
  | cons a r ih =>
    intro j hj
    simp only [List.foldl_cons]
    rcases List.mem_cons.mp hj with e | e
    · subst e
      have hlt : s.threads.length < ((g s).spawn (mk j)).threads.length := by simp [Sys.spawn, hg]
      obtain ⟨h1, h2⟩ := foldl_spawn_thr r mk g hg ((g s).spawn (mk j)) s.threads.length hlt
      refine ⟨s.threads.length, h1, ?_⟩
      rw [h2]
      unfold Sys.thr Sys.spawn
      simp [List.getD_eq_getElem?_getD, hg]
    · exact ih _ j e

theorem kind_setPc (s : Sys) (t w : Tid) (pc : Pc) : ((s.setPc t pc).thr w).kind = (s.thr w).kind := by
  by_cases h : w = t
  · subst h; exact thr_setPc_kind s w pc
  · rw [thr_setPc_ne s t w pc h]

/-- the stopper of `i` creates a `depwaiter` for every running dependent of `i` it finds -/
theorem stopperBegin_creates (s : Sys) (t : Tid) (i : IId) :
    ∀ j ∈ revDepsOf s (s.nameOf i), ∃ w, w < (armStopperBegin s t i).threads.length ∧
      ((armStopperBegin s t i).thr w).kind = .depwaiter i j := by
  intro j hj
  unfold armStopperBegin
  simp only
  obtain ⟨w, h1, h2⟩ := foldl_spawn_mem (revDepsOf s (s.nameOf i)) (fun j => Kind.depwaiter i j)
    (fun s => { s with depWg := wgAdd s.depWg i }) (fun _ => rfl) s j hj
  exact ⟨w, by simpa [Sys.setPc] using h1, by rw [kind_setPc]; exact h2⟩

theorem step_kind (s : Sys) (c : Choice) (h : Hints) (w : Tid) (hw : w < s.threads.length) :
    ((step s c h).thr w).kind = (s.thr w).kind := by
  have hle := step_le s c h
  by_cases e : w = c.tid s
  · rcases hle.tkind with k | k
    · rw [e]; exact k
    · rw [← e] at k; exact absurd hw (Nat.not_lt.mpr k)
  · rw [hle.tframe w hw e]

theorem reach_kind {s s' : Sys} (hr : Reach s s') (w : Tid) (hw : w < s.threads.length) :
    w < s'.threads.length ∧ (s'.thr w).kind = (s.thr w).kind := by
  induction hr with
  | init => exact ⟨hw, rfl⟩
  | step c h _ ih =>
    obtain ⟨h1, h2⟩ := ih
    exact ⟨Nat.lt_of_lt_of_le h1 (step_le _ c h).tlen, (step_kind _ c h w h1).trans h2⟩

theorem runThread_park (s : Sys) (t : Tid) (h : Hints) (n : Nat) (hp : mustPark (stepThread s t h) t = true) :
    runThread s t h (n + 1) = stepThread s t h := by
  unfold runThread
  simp only
  split
  · rfl
  · rfl

/-- the step in which a stopper begins: it is exactly `armStopperBegin` -/
theorem step_stopperBegin (s : Sys) (t : Tid) (h : Hints) (i : IId) (ht : t < s.threads.length)
    (hk : (s.thr t).kind = .stopper i) (hb : (s.thr t).pc = .begin) :
    step s (.run t) h = armStopperBegin { s with obs := [] } t i := by
  have hk' : (({ s with obs := [] } : Sys).thr t).kind = .stopper i := hk
  have hb' : (({ s with obs := [] } : Sys).thr t).pc = .begin := hb
  have hen : enabledThr ({ s with obs := [] } : Sys) t = true := by unfold enabledThr; simp [hb']
  have hst := stepThread_stopperBegin ({ s with obs := [] } : Sys) t h i hk' hb'
  have hpc : ((armStopperBegin ({ s with obs := [] } : Sys) t i).thr t).pc = .depWg i := by
    unfold armStopperBegin
    simp only
    have hthr := foldl_spawn_thr (revDepsOf ({ s with obs := [] } : Sys) (({ s with obs := [] } : Sys).nameOf i))
      (fun j => Kind.depwaiter i j) (fun s => { s with depWg := wgAdd s.depWg i }) (fun _ => rfl) ({ s with obs := [] } : Sys) t ht
    exact pc_setPc _ _ _ hthr.1
  have hpark : mustPark (stepThread ({ s with obs := [] } : Sys) t h) t = true := by
    rw [hst]; unfold mustPark; simp [hpc, Pc.isYield]
  unfold step
  simp only [hen, ↓reduceIte, fuelPerStep]
  rw [runThread_park _ t h 199 hpark, hst]

end PC.Sup
