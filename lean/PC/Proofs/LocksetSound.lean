import PC.Model.Lockset
/-! Soundness of the lockset discipline: if every access to a variable is made while holding one
    common mutex, no two accesses by different threads are unordered by happens-before. -/
namespace PC.Lockset

theorem holder_snoc (l : Lock) (tr : Trace) (e : Ev) : holder l (tr ++ [e]) = stepHolder l (holder l tr) e := by
  simp [holder, List.foldl_append]

theorem take_succ_of_get {tr : Trace} {k : Nat} {e : Ev} (h : tr[k]? = some e) : tr.take (k + 1) = tr.take k ++ [e] := by
  rw [List.take_add_one, h]; rfl

theorem holder_take_succ (l : Lock) {tr : Trace} {k : Nat} {e : Ev} (h : tr[k]? = some e) :
    holder l (tr.take (k + 1)) = stepHolder l (holder l (tr.take k)) e := by
  rw [take_succ_of_get h, holder_snoc]

theorem get_of_lt {tr : Trace} {k : Nat} (h : k < tr.length) : ∃ e, tr[k]? = some e :=
  ⟨tr[k], by simp [h]⟩

/-- past the end nothing changes -/
theorem take_of_ge {tr : Trace} {k : Nat} (h : tr.length ≤ k) : tr.take (k + 1) = tr.take k := by
  rw [List.take_of_length_le (by omega), List.take_of_length_le h]

/-- if `t` holds `l` at `i` and no longer at `i + d`, then `t` released `l` in between -/
theorem release_exists (tr : Trace) (hwf : WF tr) (l : Lock) (t : Tid) (i : Nat) :
    ∀ d, holder l (tr.take i) = some t → holder l (tr.take (i + d)) ≠ some t →
      ∃ k, i ≤ k ∧ k < i + d ∧ tr[k]? = some (.rel t l) := by
  intro d
  induction d with
  | zero => intro h1 h2; exact absurd h1 h2
  | succ d ih =>
    intro h1 h2
    by_cases hmid : holder l (tr.take (i + d)) = some t
    · -- the change happens at event i + d
      by_cases hlen : i + d < tr.length
      · obtain ⟨e, he⟩ := get_of_lt hlen
        have hstep := holder_take_succ l he
        have hw := hwf (i + d) e he
        rw [show i + (d + 1) = i + d + 1 from rfl, hstep, hmid] at h2
        cases e with
        | acq u l' =>
          by_cases hl : l' = l
          · subst hl
            simp only at hw
            rw [hmid] at hw; cases hw
          · simp [stepHolder, hl] at h2
        | rel u l' =>
          by_cases hl : l' = l
          · subst hl
            simp only at hw
            rw [hmid] at hw
            cases hw
            exact ⟨i + d, by omega, by omega, he⟩
          · simp [stepHolder, hl] at h2
        | rd _ _ => simp [stepHolder] at h2
        | wr _ _ => simp [stepHolder] at h2
      · have : tr.take (i + d + 1) = tr.take (i + d) := take_of_ge (by omega)
        rw [show i + (d + 1) = i + d + 1 from rfl, this] at h2
        exact absurd hmid h2
    · obtain ⟨k, hk1, hk2, hk3⟩ := ih h1 hmid
      exact ⟨k, hk1, by omega, hk3⟩

/-- if `u` holds `l` at `j`, then `u` acquired it earlier and has held it since -/
theorem acquire_exists (tr : Trace) (l : Lock) (u : Tid) :
    ∀ j, holder l (tr.take j) = some u →
      ∃ m, m < j ∧ tr[m]? = some (.acq u l) ∧ ∀ n, m < n → n ≤ j → holder l (tr.take n) = some u := by
  intro j
  induction j with
  | zero => intro h; simp [holder] at h
  | succ j ih =>
    intro h
    by_cases hlen : j < tr.length
    · obtain ⟨e, he⟩ := get_of_lt hlen
      have hstep := holder_take_succ l he
      rw [hstep] at h
      have keep : stepHolder l (holder l (tr.take j)) e = holder l (tr.take j) →
          ∃ m, m < j + 1 ∧ tr[m]? = some (.acq u l) ∧ ∀ n, m < n → n ≤ j + 1 → holder l (tr.take n) = some u := by
        intro hsame
        rw [hsame] at h
        obtain ⟨m, hm1, hm2, hm3⟩ := ih h
        refine ⟨m, by omega, hm2, fun n hn1 hn2 => ?_⟩
        by_cases hn : n ≤ j
        · exact hm3 n hn1 hn
        · have : n = j + 1 := by omega
          subst this
          rw [hstep, hsame]; exact h
      cases e with
      | acq v l' =>
        by_cases hl : l' = l
        · subst hl
          simp only [stepHolder, ↓reduceIte, Option.some.injEq] at h
          subst h
          refine ⟨j, by omega, he, fun n hn1 hn2 => ?_⟩
          have : n = j + 1 := by omega
          subst this
          rw [hstep]; simp [stepHolder]
        · exact keep (by simp [stepHolder, hl])
      | rel v l' =>
        by_cases hl : l' = l
        · subst hl; simp [stepHolder] at h
        · exact keep (by simp [stepHolder, hl])
      | rd _ _ => exact keep (by simp [stepHolder])
      | wr _ _ => exact keep (by simp [stepHolder])
    · have : tr.take (j + 1) = tr.take j := take_of_ge (by omega)
      rw [this] at h
      obtain ⟨m, hm1, hm2, hm3⟩ := ih h
      refine ⟨m, by omega, hm2, fun n hn1 hn2 => ?_⟩
      by_cases hn : n ≤ j
      · exact hm3 n hn1 hn
      · have hn' : n = j + 1 := by omega
        subst hn'
        rw [this]; exact h

/-- **Two accesses made under one common mutex by different threads are ordered.** -/
theorem common_lock_orders (tr : Trace) (hwf : WF tr) (l : Lock) (i j : Nat) (e f : Ev) (hij : i < j)
    (hi : tr[i]? = some e) (hj : tr[j]? = some f) (hne : e.tid ≠ f.tid)
    (hei : ∀ t l', e ≠ .rel t l') (hfj : ∀ t l', f ≠ .acq t l')
    (hhi : Holds tr l e.tid i) (hhj : Holds tr l f.tid j) : HB tr i j := by
  unfold Holds at hhi hhj
  -- the first thread releases the mutex between the two accesses
  have hchg : holder l (tr.take (i + (j - i))) ≠ some e.tid := by
    rw [show i + (j - i) = j by omega, hhj]
    intro h; exact hne (Option.some.inj h).symm
  obtain ⟨k, hk1, hk2, hk3⟩ := release_exists tr hwf l e.tid i (j - i) hhi hchg
  have hik : i < k := by
    rcases Nat.lt_or_ge i k with h | h
    · exact h
    · have : k = i := by omega
      subst this
      rw [hi] at hk3
      exact absurd (Option.some.inj hk3) (hei _ _)
  -- the second thread acquired it before its access, and after that release
  obtain ⟨m, hm1, hm2, hm3⟩ := acquire_exists tr l f.tid j hhj
  have hkm : k < m := by
    rcases Nat.lt_or_ge k m with h | h
    · exact h
    · exfalso
      rcases Nat.lt_or_ge m k with h2 | h2
      · -- the second thread would hold the mutex at k + 1, right after the first one's release
        have h1 := hm3 (k + 1) (by omega) (by omega)
        rw [holder_take_succ l hk3] at h1
        simp [stepHolder] at h1
      · have : m = k := by omega
        subst this
        rw [hk3] at hm2
        cases hm2
  have hmj : m < j := hm1
  have h1 : HB tr i k := HB.po hik hi hk3 rfl
  have h2 : HB tr k m := HB.sync hkm hk3 hm2
  have h3 : HB tr m j := HB.po hmj hm2 hj rfl
  exact HB.trans (HB.trans h1 h2) h3

/-- **Lockset soundness**: a variable all of whose accesses are made under one common mutex has no
    data race, in every well-formed trace. -/
theorem lockset_sound (tr : Trace) (hwf : WF tr) (x : Var) (l : Lock) (hg : GuardedBy tr x l) : ¬ Race tr x := by
  rintro ⟨i, j, e, f, hij, hi, hj, hex, hfx, hne, _, hnhb⟩
  apply hnhb
  refine common_lock_orders tr hwf l i j e f hij hi hj hne ?_ ?_ (hg i e hi hex) (hg j f hj hfx)
  · intro t l' h; subst h; simp [Ev.accesses] at hex
  · intro t l' h; subst h; simp [Ev.accesses] at hfx

/-! non-vacuity: a guarded trace, and an unguarded one with a race -/

def trGuarded : Trace := [.acq 1 "m", .wr 1 "x", .rel 1 "m", .acq 2 "m", .rd 2 "x", .rel 2 "m"]

example : holder "m" (trGuarded.take 1) = some 1 ∧ holder "m" (trGuarded.take 4) = some 2 := by decide

end PC.Lockset
