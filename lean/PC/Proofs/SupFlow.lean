import PC.Proofs.SupOne
/-! Where a process goroutine can go next (label flow), for the restart-policy theorem. -/
namespace PC.Sup

def Pc.pre : Pc → Bool
  | .begin | .runEnter | .runChecked => true
  | pc => pc.isDep

/-- `pc'` can follow `pc` in a process goroutine: the labels before the first launch are only entered
    from such labels, the back-off only from the restart decision, its end only from the back-off -/
def nextOk (pc pc' : Pc) : Bool :=
  (!pc'.pre || pc.pre) && (!(pc' == .backoff) || pc == .runExited || pc == .backoff) && (!(pc' == .backoffElapsed) || pc == .backoff || pc == .backoffElapsed)

@[simp] theorem addDone_threads' (s : Sys) (i) : (addDone s i).threads = s.threads := rfl
@[simp] theorem spawn_threads_len (s : Sys) (k) : (s.spawn k).threads.length = s.threads.length + 1 := by simp [Sys.spawn]
@[simp] theorem setPc_threads_len (s : Sys) (t pc) : (s.setPc t pc).threads.length = s.threads.length := by simp [Sys.setPc]

theorem pc_after (X : Sys) (t : Tid) (L : Pc) (h : t < X.threads.length) : ((X.setPc t L).thr t).pc = L := pc_setPc X t L h

theorem stepProc_next (s : Sys) (t : Tid) (i : IId) (h : Hints) (ht : t < s.threads.length) :
    nextOk (s.thr t).pc ((stepProc s t i h (s.thr t).pc).thr t).pc = true := by
  cases hpc : (s.thr t).pc <;>
    simp only [stepProc, armDepLookup, armWaitDone, armWaitReady, armWaitLogReady, armProcSkipped, armRunEnter, armRunChecked,
      armCmdWait, armRunExited, armBackoff, armProcRan, armProcDoneAdded, armLockCleanup, depStep, lookupRunning, afterDeps,
      doSkip, doLaunch, gotoCleanup] <;>
    (repeat' split) <;>
    (try rw [pc_setPc _ _ _ (by simp [ht, Nat.lt_succ_of_lt ht])]) <;>
    simp_all [nextOk, Pc.pre, Pc.isDep]

theorem armRunExited_backoff (s : Sys) (t : Tid) (i : IId) (ht : t < s.threads.length)
    (hb : ((armRunExited s t i).thr t).pc = .backoff) : (decideRestart s i).1 = true := by
  unfold armRunExited at hb
  simp only at hb
  split at hb
  · assumption
  · rw [pc_setPc _ _ _ (by simpa using ht)] at hb; cases hb

def Policy.restartable : Policy → Bool
  | .always | .onFailure => true
  | _ => false

theorem decideRestart_nonrestartable (s : Sys) (i : IId) (hp : (s.icfg i).policy.restartable = false) :
    (decideRestart s i).1 = false := by
  unfold decideRestart
  simp only
  have hc : s.cfg (s.nameOf i) = s.icfg i := rfl
  rw [hc]
  cases hpol : (s.icfg i).policy <;> rw [hpol] at hp <;> simp [Policy.restartable] at hp <;>
    simp [PC.Restart.isRestartable, policyString]

theorem pr_thread' {s : Sys} (g : PR s) (k : IId) (hk : k < s.insts.length) : ∃ u, u < s.threads.length ∧ (s.thr u).kind = .proc k := by
  have hm : k ∈ procIds s := by rw [g]; exact List.mem_range.mpr hk
  unfold procIds at hm
  obtain ⟨th, hth, e⟩ := List.mem_filterMap.mp hm
  obtain ⟨u, hu, eu⟩ := List.getElem_of_mem hth
  refine ⟨u, hu, ?_⟩
  rw [thr_lt_eq s u hu, eu]
  cases hkk : th.kind <;> rw [hkk] at e <;> simp [Kind.procId] at e
  rw [e]

theorem le_one_of_slack {n : Nat} {b : Bool} (h : n ≤ if b = true then 0 else 1) : n ≤ 1 := by
  split at h <;> omega

theorem tail_not_pre {pc : Pc} (h : pc.isTail = true) : pc.pre = false ∧ pc ≠ .backoff ∧ pc ≠ .backoffElapsed := by
  cases pc <;> simp_all [Pc.isTail, Pc.isOther, Pc.isLaunch, Pc.isDep, Pc.pre]

/-- **The invariant behind "never relaunched under `no` / `exit_on_failure`"**: the goroutine of an
    instance whose policy does not restart is never in the back-off, and its instance has been
    launched at most once - not at all while the goroutine is still before the launch. -/
structure NoRel (s : Sys) : Prop where
  pr : PR s
  inv : ∀ u i, u < s.threads.length → (s.thr u).kind = .proc i → (s.icfg i).policy.restartable = false →
    (s.thr u).pc ≠ .backoff ∧ (s.thr u).pc ≠ .backoffElapsed ∧
    (s.inst i).launches ≤ (if (s.thr u).pc.pre then 0 else 1)

theorem stepThread_noRel (s : Sys) (t : Tid) (h : Hints) (ht : t < s.threads.length) (g : NoRel s) : NoRel (stepThread s t h) := by
  have le := stepThread_le s t h
  have f := stepThread_facts s t h
  have pr' := f.pr g.pr
  have hkind : ((stepThread s t h).thr t).kind = (s.thr t).kind := by
    rcases le.tkind with e | e
    · exact e
    · exact absurd ht (Nat.not_lt.mpr e)
  refine ⟨pr', fun u i hu hk hpol => ?_⟩
  by_cases hnew : s.threads.length ≤ u
  · -- a goroutine created by this step: at `begin`, of a new instance
    have hbegin : ((stepThread s t h).thr u).pc = .begin := by
      rcases le.tnew u hnew hu with ⟨e, _⟩ | e
      · exact e
      · exact absurd (e ▸ ht) (Nat.not_lt.mpr hnew)
    have hinew : ¬ i < s.insts.length := by
      intro hi
      obtain ⟨w, hw, hkw⟩ := pr_thread' g.pr i hi
      have hkw' : ((stepThread s t h).thr w).kind = .proc i := by
        by_cases hwt : w = t
        · subst hwt; rw [hkind]; exact hkw
        · rw [le.tframe w hw hwt]; exact hkw
      have hwu := pr_uniq pr' w u i (Nat.lt_of_lt_of_le hw le.tlen) hu hkw' hk
      subst hwu
      exact absurd hw (Nat.not_lt.mpr hnew)
    have hl0 : (s.inst i).launches = 0 := by rw [inst_default' s i (Nat.le_of_not_lt hinew)]
    have hl : ((stepThread s t h).inst i).launches = 0 := by
      rcases f.launches i with e | ⟨e, _⟩
      · rw [e, hl0]
      · exact absurd (pr_valid g.pr t i ht e) hinew
    rw [hbegin, hl]
    exact ⟨(by intro e; cases e), (by intro e; cases e), (by simp [Pc.pre])⟩
  · have hul : u < s.threads.length := Nat.lt_of_not_le hnew
    by_cases hut : u = t
    · subst hut
      rw [hkind] at hk
      have hi := pr_valid g.pr u i hul hk
      have hpol0 : (s.icfg i).policy.restartable = false := by rw [← icfg_mono le hi]; exact hpol
      obtain ⟨n1, n2, n3⟩ := g.inv u i hul hk hpol0
      by_cases hsd : (s.thr u).pc.isStopSd = true
      · have htail := stepThread_stopSd_other s u h hul hsd
        obtain ⟨q1, q2, q3⟩ := tail_not_pre htail
        refine ⟨q2, q3, ?_⟩
        rw [q1]
        simp only [Bool.false_eq_true, ↓reduceIte]
        rcases f.launches i with e | ⟨_, _, e, _⟩
        · rw [e]; exact le_one_of_slack n3
        · rcases e with e | e <;> rw [e] at hsd <;> cases hsd
      · have hsd' : (s.thr u).pc.isStopSd = false := by simpa using hsd
        have hstep := stepThread_proc s u h i hk hsd'
        have hnext := stepProc_next s u i h hul
        rw [← hstep] at hnext
        unfold nextOk at hnext
        simp only [Bool.and_eq_true, Bool.or_eq_true, Bool.not_eq_true', beq_iff_eq] at hnext
        obtain ⟨⟨a1, a2⟩, a3⟩ := hnext
        have b1 : ((stepThread s u h).thr u).pc ≠ .backoff := by
          intro e
          rcases a2 with a2 | a2
          · rcases a2 with a2 | a2
            · rw [e] at a2; simp at a2
            · -- the restart decision: never true under this policy
              have hd := decideRestart_nonrestartable s i hpol0
              have : ((armRunExited s u i).thr u).pc = .backoff := by
                rw [hstep, a2] at e; simpa [stepProc] using e
              rw [armRunExited_backoff s u i hul this] at hd; cases hd
          · exact n1 a2
        have b2 : ((stepThread s u h).thr u).pc ≠ .backoffElapsed := by
          intro e
          rcases a3 with a3 | a3
          · rcases a3 with a3 | a3
            · rw [e] at a3; simp at a3
            · exact n1 a3
          · exact n2 a3
        refine ⟨b1, b2, ?_⟩
        rcases f.launches i with e | ⟨_, e, hpc, hcw⟩
        · rw [e]
          cases hpre' : ((stepThread s u h).thr u).pc.pre with
          | true =>
            rcases a1 with a1 | a1
            · rw [hpre'] at a1; cases a1
            · rw [a1] at n3; simpa using n3
          | false => simp only [Bool.false_eq_true, ↓reduceIte]; exact le_one_of_slack n3
        · rw [e, hcw hul]
          rcases hpc with hpc | hpc
          · rw [hpc] at n3
            have h0 : (s.inst i).launches = 0 := by simpa [Pc.pre] using n3
            rw [h0]; simp [Pc.pre, Pc.isDep]
          · exact absurd hpc n2
    · rw [le.tframe u hul hut] at hk ⊢
      have hi := pr_valid g.pr u i hul hk
      have hpol0 : (s.icfg i).policy.restartable = false := by rw [← icfg_mono le hi]; exact hpol
      obtain ⟨n1, n2, n3⟩ := g.inv u i hul hk hpol0
      refine ⟨n1, n2, ?_⟩
      rcases f.launches i with e | ⟨e, _⟩
      · rw [e]; exact n3
      · exact absurd (pr_uniq g.pr u t i hul ht hk e) hut

theorem ext_noRel (s : Sys) (c : Choice) (h : Hints) (hc : ∀ t, c ≠ .run t) (g : NoRel s) : NoRel (step s c h) := by
  have q := ext_qc s c h hc
  have le := step_le s c h
  have htid : Choice.tid s c = s.threads.length := by
    cases c with
    | run t => exact absurd rfl (hc t)
    | _ => rfl
  rw [htid] at le
  have hold : ∀ u, u < s.threads.length → (step s c h).thr u = s.thr u :=
    fun u hu => le.tframe u hu (Nat.ne_of_lt hu)
  refine ⟨(q.facts 0).pr g.pr, fun u i hu hk hpol => ?_⟩
  by_cases hul : u < s.threads.length
  · rw [hold u hul] at hk ⊢
    have hi := pr_valid g.pr u i hul hk
    have hpol0 : (s.icfg i).policy.restartable = false := by rw [← icfg_mono le hi]; exact hpol
    obtain ⟨n1, n2, n3⟩ := g.inv u i hul hk hpol0
    exact ⟨n1, n2, by rw [q.launches i]; exact n3⟩
  · exact absurd hk (ext_new_not_proc s c h hc u (Nat.le_of_not_lt hul) hu i)

theorem noRel_congr {s s' : Sys} (g : NoRel s) (ht : s'.threads = s.threads) (hi : s'.insts = s.insts) (hc : s'.cfgs = s.cfgs) : NoRel s' := by
  have e1 : ∀ u, s'.thr u = s.thr u := fun u => by unfold Sys.thr; rw [ht]
  have e2 : ∀ j, s'.inst j = s.inst j := fun j => by unfold Sys.inst; rw [hi]
  have e3 : ∀ j, s'.icfg j = s.icfg j := fun j => by unfold Sys.icfg Sys.cfg Sys.nameOf; rw [hc, e2]
  refine ⟨by have := g.pr; unfold PR procIds at this ⊢; rw [ht, hi]; exact this, fun u i hu hk hp => ?_⟩
  rw [e1] at hk ⊢; rw [ht] at hu; rw [e3] at hp; rw [e2]
  exact g.inv u i hu hk hp

/-- in every state the model passes through (every schedule, either granularity, every sequence of
    events and requests - overlaps of instances included) -/
theorem reachF_noRel (gr : Gran) (o : Bool) (cfgs : List Cfg) {s : Sys} (h : ReachF (init gr o cfgs) s) : NoRel s := by
  induction h with
  | init => exact ⟨by simp [PR, procIds, init], fun u i hu _ _ => by simp [init] at hu⟩
  | thread t hh _ ht _ ih => exact stepThread_noRel _ t hh ht ih
  | ext c hh _ hc ih => exact ext_noRel _ c hh hc ih
  | clear _ ih => exact noRel_congr ih rfl rfl rfl

/-- **An instance whose policy is `no` or `exit_on_failure` is launched at most once**: never
    relaunched, whatever its exit codes, the schedule, the requests and the other processes do. -/
theorem never_relaunched (gr : Gran) (o : Bool) (cfgs : List Cfg) {s : Sys} (h : ReachF (init gr o cfgs) s)
    (i : IId) (hi : i < s.insts.length) (hp : (s.icfg i).policy.restartable = false) : (s.inst i).launches ≤ 1 := by
  have g := reachF_noRel gr o cfgs h
  obtain ⟨u, hu, hk⟩ := pr_thread' g.pr i hi
  exact le_one_of_slack (g.inv u i hu hk hp).2.2

end PC.Sup
