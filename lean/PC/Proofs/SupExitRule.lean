import PC.Proofs.SupExit
import PC.Proofs.SupSd
/-! The project exit code, as an invariant of every state the model passes through and a fact about
    every single step:
    * until a trigger records one, the exit code is 0 (`reachF_exit_zero`);
    * the once-flag is set only by a process goroutine that takes the skip path with
      `exit_on_skipped` (code 1) or ends with `exit_on_failure` and a non-zero code or with
      `exit_on_end` (its own exit code) — `exit_set_only_by_trigger`; no external event and no other
      thread step touches the cells (`ext_e`, `stepThread_e`);
    * once set, the code never changes (`PC.Props.C04.exit_code_first_trigger_wins`). -/
namespace PC.Sup

theorem setInst_e' (s : Sys) (i : IId) (f : Inst → Inst) : ESame s (s.setInst i f) := ⟨rfl, rfl⟩

theorem ext_e (s : Sys) (c : Choice) (h : Hints) (hc : ∀ t, c ≠ .run t) : ESame s (step s c h) := by
  unfold step
  simp only
  cases c with
  | run t => exact absurd rfl (hc t)
  | exit n code =>
    simp only; split
    · eupd (cmdExit_e _ _ _)
    · done_e
  | line n ready =>
    simp only; split
    · split
      · epeel (emit_e _ _)
        epeel (setInst_e' _ _ _)
        eupd (setPs_e _ _ _)
      · done_e
    · done_e
  | probe n ok =>
    simp only; split
    · split
      · done_e
      · split
        · epeel (setInst_e _ _ _ (by inst_le))
          eupd (setPs_e _ _ _)
        · eupd (setPs_e _ _ _)
    · done_e
  | probeFatal id n =>
    simp only; split
    · eupd (spawn_e _ _ (by intro i h; cases h))
    · done_e
  | killTimeout n =>
    simp only; split
    · eupd (setInst_e _ _ _ (by inst_le))
    · done_e
  | call id op => eupd (spawn_e _ _ (by intro i h; cases h))

theorem stepThread_procSkipped (s : Sys) (t : Tid) (h : Hints) (i : IId) (hk : (s.thr t).kind = .proc i)
    (hp : (s.thr t).pc = .procSkipped) : stepThread s t h = armProcSkipped s t i := by
  unfold stepThread; simp [hp, hk, stepProc]

theorem stepThread_procDoneAdded (s : Sys) (t : Tid) (h : Hints) (i : IId) (c : Int) (hk : (s.thr t).kind = .proc i)
    (hp : (s.thr t).pc = .procDoneAdded c) : stepThread s t h = armProcDoneAdded s t i c := by
  unfold stepThread; simp [hp, hk, stepProc]

/-- a trigger: the goroutine of instance `i` records `c` as the project exit code -/
def TriggerAt (s : Sys) (t : Tid) (i : IId) (c : Int) : Prop :=
  (s.thr t).kind = .proc i ∧
  (((s.thr t).pc = .procSkipped ∧ (s.icfg i).exitOnSkipped = true ∧ c = 1) ∨
   ((s.thr t).pc = .procDoneAdded c ∧ isTrigger s i c))

/-- **What a thread step does to the project exit code**: nothing, or it is a trigger of the stepping
    goroutine's own process and the code recorded (if none was before) is that trigger's. -/
theorem stepThread_exit (s : Sys) (t : Tid) (h : Hints) :
    ESame s (stepThread s t h) ∨ ∃ i c, TriggerAt s t i c ∧ Records s (stepThread s t h) c := by
  by_cases hsp : (s.thr t).kind.isProc = true ∧ ((s.thr t).pc = .procSkipped ∨ ∃ c, (s.thr t).pc = .procDoneAdded c)
  · obtain ⟨hk, hp⟩ := hsp
    cases hkk : (s.thr t).kind with
    | proc i =>
      rcases hp with hp | ⟨c, hp⟩
      · rw [stepThread_procSkipped s t h i hkk hp]
        rcases armProcSkipped_e s t i with ⟨h1, h2⟩ | ⟨_, h2⟩
        · exact Or.inr ⟨i, 1, ⟨hkk, Or.inl ⟨hp, h1, rfl⟩⟩, h2⟩
        · exact Or.inl h2
      · rw [stepThread_procDoneAdded s t h i c hkk hp]
        rcases armProcDoneAdded_e s t i c with ⟨h1, h2⟩ | ⟨_, h2⟩
        · exact Or.inr ⟨i, c, ⟨hkk, Or.inr ⟨hp, h1⟩⟩, h2⟩
        · exact Or.inl h2
    | _ => rw [hkk] at hk; cases hk
  · exact Or.inl (stepThread_e s t h hsp)

/-- **The exit code is set only by a trigger, to that trigger's code.** -/
theorem exit_set_only_by_trigger (s : Sys) (t : Tid) (h : Hints) (h0 : s.exitCodeSet = false)
    (h1 : (stepThread s t h).exitCodeSet = true) :
    ∃ i c, TriggerAt s t i c ∧ (stepThread s t h).exitCode = c := by
  rcases stepThread_exit s t h with e | ⟨i, c, ht, hr⟩
  · rw [e.set, h0] at h1; cases h1
  · rcases hr with ⟨hs, _⟩ | ⟨_, _, hc⟩
    · rw [h0] at hs; cases hs
    · exact ⟨i, c, ht, hc⟩

/-- no external event (exit of a command, probe result, log line, kill timeout, new request) sets it -/
theorem exit_not_set_by_events (s : Sys) (c : Choice) (h : Hints) (hc : ∀ t, c ≠ .run t) :
    (step s c h).exitCodeSet = s.exitCodeSet ∧ (step s c h).exitCode = s.exitCode :=
  ⟨(ext_e s c h hc).set, (ext_e s c h hc).code⟩

/-- **Success until a trigger**: in every state the model passes through, as long as no trigger has
    recorded a code the project exit code is 0. -/
theorem reachF_exit_zero (gr : Gran) (o : Bool) (cfgs : List Cfg) {s : Sys} (h : ReachF (init gr o cfgs) s) :
    s.exitCodeSet = false → s.exitCode = 0 := by
  induction h with
  | init => intro _; rfl
  | @thread s1 t hh _ _ _ ih =>
    intro hf
    rcases stepThread_exit s1 t hh with e | ⟨i, c, _, hr⟩
    · rw [e.code]; exact ih (by rw [← e.set]; exact hf)
    · rcases hr with ⟨hs, e⟩ | ⟨_, hs, _⟩
      · rw [e.set, hs] at hf; cases hf
      · rw [hs] at hf; cases hf
  | @ext s1 c hh _ hc ih =>
    intro hf
    have e := ext_e s1 c hh hc
    rw [e.code]; exact ih (by rw [← e.set]; exact hf)
  | clear _ ih => exact ih

end PC.Sup
