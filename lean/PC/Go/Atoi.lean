/-! `strconv.Atoi` on a 64-bit platform: value and success flag. -/
namespace PC.Go

def maxInt64 : Int := 9223372036854775807
def minInt64 : Int := -9223372036854775808

inductive ScanRes where
  | ok (n : Nat)
  | syntaxErr
  | range
deriving Repr, DecidableEq

/-- `strconv.ParseUint(s, 10, 64)` digit loop: left to right; an overflow is reported when it
    happens, i.e. it wins over an invalid character further to the right. -/
def scanDigits : List Char → Nat → ScanRes
  | [], n => .ok n
  | c :: r, n =>
    if !c.isDigit then .syntaxErr
    else if n ≥ 1844674407370955162 then .range
    else
      let n1 := n * 10 + (c.toNat - 48)
      if n1 > 18446744073709551615 then .range else scanDigits r n1

/-- `strconv.Atoi s`: optional sign, then one or more ASCII digits. Syntax error → `(0, false)`;
    out of range → the extreme value of that sign and `false` (as `ParseInt` documents). -/
def atoi (s : String) : Int × Bool :=
  let cs := s.toList
  let (neg, ds) : Bool × List Char := match cs with
    | '+' :: r => (false, r)
    | '-' :: r => (true, r)
    | r => (false, r)
  if ds.isEmpty then (0, false) else
  match scanDigits ds 0 with
  | .syntaxErr => (0, false)
  | .range => if neg then (minInt64, false) else (maxInt64, false)
  | .ok n =>
    if neg then (if n > 9223372036854775808 then (minInt64, false) else (-(n : Int), true))
    else (if n ≥ 9223372036854775808 then (maxInt64, false) else ((n : Int), true))

end PC.Go
