/-! `os.Expand` / `os.ExpandEnv` and `strings.ReplaceAll` on character lists. -/
namespace PC.Go

def isShellSpecialVar (c : Char) : Bool :=
  c == '*' || c == '#' || c == '$' || c == '@' || c == '!' || c == '?' || c == '-' || ('0' ≤ c && c ≤ '9')

def isAlphaNum (c : Char) : Bool :=
  c == '_' || ('0' ≤ c && c ≤ '9') || ('a' ≤ c && c ≤ 'z') || ('A' ≤ c && c ≤ 'Z')

/-- index of the first `}` at position ≥ 1 of `s` (scan of `getShellName`) -/
def findClose : List Char → Nat → Option Nat
  | [], _ => none
  | c :: r, i => if c == '}' then some i else findClose r (i + 1)

/-- `getShellName s` for non-empty `s`: the name and the number of characters consumed -/
def getShellName (s : List Char) : List Char × Nat :=
  match s with
  | [] => ([], 0)
  | '{' :: r =>
    match r with
    | c :: '}' :: _ => if isShellSpecialVar c then ([c], 3) else
      (match findClose r 1 with
       | some i => if i == 1 then ([], 2) else (r.take (i - 1), i + 1)
       | none => ([], 1))
    | _ =>
      match findClose r 1 with
      | some i => if i == 1 then ([], 2) else (r.take (i - 1), i + 1)
      | none => ([], 1)
  | c :: _ =>
    if isShellSpecialVar c then ([c], 1)
    else
      let n := s.takeWhile isAlphaNum
      (n, n.length)

/-- `os.Expand s mapping` (fuel = length of `s` suffices) -/
def expandF (m : List Char → List Char) : Nat → List Char → List Char
  | 0, s => s
  | _, [] => []
  | fuel + 1, c :: rest =>
    if c == '$' && !rest.isEmpty then
      let (name, w) := getShellName rest
      if name.isEmpty && w > 0 then expandF m fuel (rest.drop w)         -- invalid syntax: eaten
      else if name.isEmpty then '$' :: expandF m fuel rest                -- `$` not followed by a name
      else m name ++ expandF m fuel (rest.drop w)
    else c :: expandF m fuel rest

def expand (m : List Char → List Char) (s : List Char) : List Char := expandF m (s.length + 1) s

/-- `strings.ReplaceAll s old new` for non-empty `old` (leftmost, non-overlapping) -/
def replaceAllF (old new : List Char) : Nat → List Char → List Char
  | 0, s => s
  | _, [] => []
  | fuel + 1, c :: rest =>
    if old.isPrefixOf (c :: rest) then new ++ replaceAllF old new fuel ((c :: rest).drop old.length)
    else c :: replaceAllF old new fuel rest

def replaceAll (s old new : List Char) : List Char := replaceAllF old new (s.length + 1) s

/-- environment as the list `exec` receives; `os/exec` keeps the LAST duplicate of a key -/
def envLookup (env : List (String × String)) (k : String) : Option String :=
  ((env.reverse).find? (·.1 = k)).map (·.2)

end PC.Go
