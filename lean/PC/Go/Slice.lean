/-! Go slice expressions `s[i:j]` on a list, with the run-time panic rule. -/
namespace PC.Go

/-- `s[i:j]`: `none` models the run-time panic (`slice bounds out of range`).
    The upper bound is checked against `len`, not `cap` (a result reaching past `len` would expose
    stale backing-array cells; the models never rely on that, so it is treated as a failure). -/
def goSlice (xs : List α) (i j : Int) : Option (List α) :=
  if 0 ≤ i ∧ i ≤ j ∧ j ≤ (xs.length : Int) then some ((xs.drop i.toNat).take (j - i).toNat) else none

theorem goSlice_some {xs : List α} {i j : Int} (h0 : 0 ≤ i) (h1 : i ≤ j) (h2 : j ≤ (xs.length : Int)) :
    goSlice xs i j = some ((xs.drop i.toNat).take (j - i).toNat) := by
  simp [goSlice, h0, h1, h2]

theorem goSlice_to_end {xs : List α} {i : Int} (h0 : 0 ≤ i) (h1 : i ≤ (xs.length : Int)) :
    goSlice xs i xs.length = some (xs.drop i.toNat) := by
  rw [goSlice_some h0 h1 (Int.le_refl _)]
  congr 1
  apply List.take_of_length_le
  simp only [List.length_drop]
  omega

end PC.Go
