import PC.Proofs.SupExit
import PC.Gen.Trigger
/-! The two trigger conditions of the project exit code (`ProjectRunner.onProcessEnd`,
    `onProcessSkipped`), translated from the source on this run, tied to the model's `isTrigger` and
    `armProcSkipped`: the model records an exit code exactly when the code does, and the same one. -/
namespace PC.Tie.Trigger
open PC.Sup PC.Gen.Trigger

/-- the configuration string of a restart policy -/
def policyStr : Policy → String
  | .no => "no" | .always => "always" | .onFailure => "on_failure" | .exitOnFailure => "exit_on_failure"

/-- the end of a process is a trigger in the source exactly when it is one in the model … -/
theorem triggerOnEnd_iff (c : Int) (pol : Policy) (e : Bool) :
    (triggerOnEnd c (policyStr pol) e).isSome = true ↔ ((c ≠ 0 ∧ pol = .exitOnFailure) ∨ e = true) := by
  unfold triggerOnEnd
  cases pol <;> cases e <;> by_cases hc : c = 0 <;> simp [policyStr, hc]

/-- … and the code it records is the exit code of the process that ended -/
theorem triggerOnEnd_code (c c' : Int) (r : String) (e : Bool) (h : triggerOnEnd c r e = some c') : c' = c := by
  unfold triggerOnEnd at h
  split at h
  · exact (Option.some.inj h).symm
  · cases h

theorem triggerOnEnd_model (s : Sys) (i : IId) (c : Int) :
    (triggerOnEnd c (policyStr (s.icfg i).policy) (s.icfg i).exitOnEnd).isSome = true ↔ isTrigger s i c :=
  triggerOnEnd_iff c _ _

/-- a skipped process records exit code 1 exactly with `exit_on_skipped` -/
theorem triggerOnSkipped_eq (e : Bool) : triggerOnSkipped e = if e then some 1 else none := by
  unfold triggerOnSkipped; cases e <;> rfl

end PC.Tie.Trigger
