import PC.Model.Api
import PC.Gen.Api
/-! Tie of the REST model to the source: the tables regenerated from src/api/routes.go,
    src/api/pc_api.go and src/client/*.go on every run must equal the model's tables. -/
namespace PC.Tie.Api
open PC.Api

/-- the route table of routes.go = the model's routes (JSON handlers + websocket) plus the two non-API routes -/
theorem routes_eq : PC.Gen.Api.routes = otherRoutes ++ routes := by decide

/-- every handler's shape (parameters, conversions, body binding, operation, status constants) -/
theorem handlers_eq :
    PC.Gen.Api.handlers = handlers.map fun h => (h.name, h.params, h.atoi, h.bind, h.op, h.rule.statuses) := by decide

theorem clientCalls_eq : PC.Gen.Api.clientCalls = clientCalls := by decide

end PC.Tie.Api
