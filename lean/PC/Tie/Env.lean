import PC.Gen.Env
import PC.Model.Env
namespace PC.Tie.Env
theorem loadText_eq : PC.Gen.Env.loadText = PC.Env.loadText := rfl
theorem processEnv_eq : PC.Gen.Env.processEnv = PC.Env.processEnv := rfl
theorem envEscaped_eq : PC.Gen.Env.envEscaped = PC.Env.envEscaped := rfl
end PC.Tie.Env
