import PC.Gen.Probe
import PC.Model.Probe
namespace PC.Tie.Probe
theorem validateAndSetDefaults_eq : PC.Gen.Probe.validateAndSetDefaults = PC.Probe.validateAndSetDefaults := rfl
theorem httpNumPort_eq : PC.Gen.Probe.httpNumPort = PC.Probe.httpNumPort := rfl
theorem healthCheckCompleted_eq : PC.Gen.Probe.healthCheckCompleted = PC.Probe.healthCheckCompleted := rfl
end PC.Tie.Probe
