import PC.Model.Sup
import PC.Gen.Facts
/-! Decision tables of the supervisor model tied to the tables regenerated from the source on this
    run (`PC.Gen.Facts.stateSets`, `stateEffects`, `depWaits`): which states count as running, which
    state a stop treats as "not launched yet", which state changes forget the health and force the
    exit code, and which wait primitive (with or without a skip path) each dependency condition
    uses. A change of one of these decisions in the source changes the table and breaks the tie even
    when the function's text is otherwise the same. -/
namespace PC.Tie.Sup
open PC.Sup PC.Gen.Facts

/-- the Go constant of a status -/
def stConst : Status → String
  | .disabled => "ProcessStateDisabled" | .foreground => "ProcessStateForeground" | .pending => "ProcessStatePending"
  | .running => "ProcessStateRunning" | .launching => "ProcessStateLaunching" | .launched => "ProcessStateLaunched"
  | .restarting => "ProcessStateRestarting" | .terminating => "ProcessStateTerminating"
  | .completed => "ProcessStateCompleted" | .skipped => "ProcessStateSkipped" | .error => "ProcessStateError"

def condConst : Cond → String
  | .completed => "ProcessConditionCompleted" | .completedOk => "ProcessConditionCompletedSuccessfully"
  | .healthy => "ProcessConditionHealthy" | .logReady => "ProcessConditionLogReady" | .started => "ProcessConditionStarted"

def tbl (t : List (String × List String)) (k : String) : List String := ((t.find? (·.1 = k)).map (·.2)).getD []

/-- `Process.isRunning` = the model's `isRunningStatus` -/
theorem isRunning_tie (st : Status) : isRunningStatus st = (tbl stateSets "isRunning").contains (stConst st) := by
  cases st <;> decide

/-- `stopProcess` treats exactly the Pending state as "registered but not launched yet" (the model's
    `armStopNotRunning`) -/
theorem stop_pending_tie : tbl stateSets "stopProcess" = [stConst .pending] := by decide

/-- the status writes that forget the health (`setState` of the model) -/
def resetsHealth : Status → Bool
  | .restarting | .launching | .terminating => true
  | _ => false

theorem health_reset_tie (st : Status) : resetsHealth st = (tbl stateEffects (stConst st)).contains "set:Health" := by
  cases st <;> decide

/-- only Skipped forces the exit code (to 1) -/
theorem skipped_exit_tie (st : Status) : (st == .skipped) = (tbl stateEffects (stConst st)).contains "call:setExitCodeLocked" := by
  cases st <;> decide

/-- the model's `setState` does to the health exactly what the table says -/
theorem setState_health (s : Sys) (i : IId) (st : Status) (hn : s.nameOf i < s.pstates.length) :
    ((setState s i st).ps (s.nameOf i)).health = if resetsHealth st then .unknown else (s.ps (s.nameOf i)).health := by
  unfold setState
  cases st <;> simp [resetsHealth, Sys.ps, Sys.setPs, Sys.emit, List.getD_eq_getElem?_getD, hn]

/-- the wait primitive of each dependency condition, and whether the case has an error (skip) path -/
def waitFn : Cond → String
  | .completed | .completedOk => "call:waitForCompletion"
  | .healthy => "call:waitUntilReady"
  | .logReady => "call:waitUntilLogReady"
  | .started => "call:waitForStarted"

def canSkip : Cond → Bool
  | .completedOk | .healthy | .logReady => true
  | _ => false

theorem depWaits_tie (c : Cond) : tbl depWaits (condConst c) = (if canSkip c then ["call:Errorf", waitFn c] else [waitFn c]) := by
  cases c <;> decide

/-- …and the model's dependency arms: the wait label per condition, a skip path exactly where the
    source has one -/
theorem model_waits (s : Sys) (t : Tid) (d : IId) (c : Cond) (rest : List (Name × Cond)) :
    armDepLookup s t d c rest =
      s.setPc t (match c with
       | .completed => .waitDone d false rest | .completedOk => .waitDone d true rest
       | .healthy => .waitReady d rest | .logReady => .waitLogReady d rest | .started => .waitStarted d rest) := by
  cases c <;> rfl

end PC.Tie.Sup
