import PC.Gen.Restart
import PC.Model.Restart
namespace PC.Tie.Restart
theorem isRestartable_eq : PC.Gen.Restart.isRestartable = PC.Restart.isRestartable := rfl
theorem getBackoffSeconds_eq : PC.Gen.Restart.getBackoffSeconds = PC.Restart.getBackoffSeconds := rfl
end PC.Tie.Restart
