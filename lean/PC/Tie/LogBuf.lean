import PC.Gen.LogBuf
import PC.Model.LogBuf
/-! Tie X: the definitions regenerated from `/repo`'s source equal the hand-written model. -/
namespace PC.Tie.LogBuf

theorem getLogRange_eq : PC.Gen.LogBuf.getLogRange = PC.LogBuf.getLogRange := rfl
theorem slack_eq : PC.Gen.LogBuf.slack = PC.LogBuf.slack := rfl

end PC.Tie.LogBuf
