import PC.Gen.Facts
import PC.Model.Update
/-! Tie X for C14: the field tables extracted from the source on this run. -/
namespace PC.Tie.Update
open PC.Update

/-- `Compare` looks at exactly the fields the model says -/
theorem comparedFields_eq : PC.Gen.Facts.comparedFields = comparedFields := by decide

/-- every field of `ProcessConfig` is either compared or in the documented exempt list — adding a
    field to the struct without deciding its status breaks this obligation -/
theorem every_field_decided :
    PC.Gen.Facts.processConfigFields.all (fun f => comparedFields.contains f || exemptFields.contains f) = true := by
  decide

/-- and nothing is compared that is not a field -/
theorem compared_are_fields :
    comparedFields.all (fun f => PC.Gen.Facts.processConfigFields.contains f) = true := by decide

end PC.Tie.Update
