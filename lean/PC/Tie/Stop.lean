import PC.Gen.Stop
import PC.Model.Stop
import PC.Model.StopPlan
import PC.Gen.Facts
namespace PC.Tie.Stop
theorem cmdStop_eq : PC.Gen.Stop.cmdStop = PC.Stop.cmdStop := rfl
theorem minSig_eq : PC.Gen.Stop.minSig = PC.Stop.minSig := rfl
theorem maxSig_eq : PC.Gen.Stop.maxSig = PC.Stop.maxSig := rfl
theorem undefinedTimeout_eq : PC.Gen.Stop.undefinedShutdownTimeoutSec = PC.Stop.undefinedShutdownTimeoutSec := rfl
theorem defaultTimeout_eq : PC.Gen.Stop.defaultShutdownTimeoutSec = PC.Stop.defaultShutdownTimeoutSec := rfl
/-- the call sites of `p.command.Stop` in process.go and their arguments are those of the model -/
theorem stopCalls_eq : PC.Gen.Facts.stopCalls = PC.Stop.stopCalls := by decide
end PC.Tie.Stop
