import PC.Drv.LogBuf
import PC.Drv.Pure
import PC.Drv.RevDeps
import PC.Drv.Sup
import PC.Drv.Output
import PC.Drv.Env
import PC.Drv.Replica
import PC.Drv.Update
import PC.Drv.Merge
import PC.Drv.Load
import PC.Drv.Plan
import PC.Drv.Api
import PC.Drv.OsStop
import PC.Drv.Race
import PC.Drv.Daemon
import PC.Drv.LogFile
import PC.Drv.WsFollow
/-! `pcdriver <component>`: reads protocol lines on stdin, prints `model ||| verdict` per line. -/
open PC.Drv

def main (args : List String) : IO UInt32 := do
  let stdin ← IO.getStdin
  let stdout ← IO.getStdout
  match args with
  | ["logbuf"] => loop PC.Drv.LogBuf.step stdin stdout {}; return 0
  | ["restart"] => loop PC.Drv.Pure.restartStep stdin stdout (); return 0
  | ["probe"] => loop PC.Drv.Pure.probeStep stdin stdout (); return 0
  | ["atoi"] => loop PC.Drv.Pure.atoiStep stdin stdout (); return 0
  | ["revdeps"] => loop PC.Drv.RevDeps.step stdin stdout (); return 0
  | ["sup"] => loop PC.Drv.Sup.step stdin stdout {}; return 0
  | ["output"] => loop PC.Drv.Output.step stdin stdout (); return 0
  | ["env"] => loop PC.Drv.Env.step stdin stdout (); return 0
  | ["replica"] => loop PC.Drv.Replica.replicaStep stdin stdout (); return 0
  | ["scale"] => loop PC.Drv.Replica.scaleStep stdin stdout {}; return 0
  | ["load"] => loop PC.Drv.Load.step stdin stdout (); return 0
  | ["plan"] => loop PC.Drv.Plan.step stdin stdout (); return 0
  | ["api"] => loop PC.Drv.Api.step stdin stdout (); return 0
  | ["osstop"] => loop PC.Drv.OsStop.step stdin stdout (); return 0
  | ["race"] => loop PC.Drv.Race.step stdin stdout (); return 0
  | ["wsfollow"] => loop PC.Drv.WsFollow.step stdin stdout {}; return 0
  | ["logfile"] => loop PC.Drv.LogFile.step stdin stdout (); return 0
  | ["daemon"] => loop PC.Drv.Daemon.step stdin stdout ({} : PC.Daemon.D); return 0
  | ["merge"] => loop PC.Drv.Merge.step stdin stdout (); return 0
  | ["update"] => loop PC.Drv.Update.step stdin stdout {}; return 0
  | _ => IO.eprintln "usage: pcdriver <component>"; return 2
