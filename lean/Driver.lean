import PC.Drv.LogBuf
/-! `pcdriver <component>`: reads protocol lines on stdin, prints `model ||| verdict` per line. -/
open PC.Drv

def main (args : List String) : IO UInt32 := do
  let stdin ← IO.getStdin
  let stdout ← IO.getStdout
  match args with
  | ["logbuf"] => loop PC.Drv.LogBuf.step stdin stdout {}; return 0
  | _ => IO.eprintln "usage: pcdriver <component>"; return 2
