module verif/harness

go 1.22.0

require github.com/f1bonacc1/process-compose v0.0.0

require (
	github.com/InVisionApp/go-health/v2 v2.1.4 // indirect
	github.com/InVisionApp/go-logger v1.0.1 // indirect
	github.com/creack/pty v1.1.24 // indirect
	github.com/fatih/color v1.18.0 // indirect
	github.com/mattn/go-colorable v0.1.13 // indirect
	github.com/mattn/go-isatty v0.0.20 // indirect
	github.com/rs/zerolog v1.33.0 // indirect
	golang.org/x/sys v0.28.0 // indirect
	golang.org/x/term v0.27.0 // indirect
	gopkg.in/natefinch/lumberjack.v2 v2.2.1 // indirect
)

replace github.com/f1bonacc1/process-compose => /repo

replace github.com/InVisionApp/go-health/v2 => github.com/f1bonacc1/go-health/v2 v2.1.4

replace github.com/cakturk/go-netstat => github.com/f1bonacc1/netstat v0.0.0-20230714090734-adb3fa07cab7
