module verif/harness

go 1.22.0


require (
	dario.cat/mergo v1.0.1
	github.com/InVisionApp/go-health/v2 v2.1.4
	github.com/adrg/xdg v0.5.3
	github.com/cakturk/go-netstat v0.0.0-20200220111822-e5b49efee7a5
	github.com/creack/pty v1.1.24
	github.com/f1bonacc1/glippy v0.0.0-20230614190937-e7ca07f99f6f
	github.com/fatih/color v1.18.0
	github.com/gdamore/tcell/v2 v2.7.4
	github.com/gin-gonic/gin v1.10.0
	github.com/gorilla/websocket v1.5.3
	github.com/joho/godotenv v1.5.1
	github.com/rivo/tview v0.0.0-20241103174730-c76f7879f592
	github.com/shirou/gopsutil/v4 v4.24.11
	github.com/spf13/cobra v1.8.1
	github.com/spf13/pflag v1.0.5
	github.com/swaggo/swag v1.16.4
	golang.org/x/term v0.27.0
	gopkg.in/natefinch/lumberjack.v2 v2.2.1
	gopkg.in/yaml.v2 v2.4.0
	gopkg.in/yaml.v3 v3.0.1
)

replace github.com/InVisionApp/go-health/v2 => github.com/f1bonacc1/go-health/v2 v2.1.4

replace github.com/cakturk/go-netstat => github.com/f1bonacc1/netstat v0.0.0-20230714090734-adb3fa07cab7

require (
	github.com/InVisionApp/go-logger v1.0.1 // indirect
	github.com/KyleBanks/depth v1.2.1 // indirect
	github.com/bytedance/sonic v1.12.5 // indirect
	github.com/bytedance/sonic/loader v0.2.1 // indirect
	github.com/cloudwego/base64x v0.1.4 // indirect
	github.com/cloudwego/iasm v0.2.0 // indirect
	github.com/cpuguy83/go-md2man/v2 v2.0.4 // indirect
	github.com/ebitengine/purego v0.8.1 // indirect
	github.com/gabriel-vasile/mimetype v1.4.7 // indirect
	github.com/gdamore/encoding v1.0.1 // indirect
	github.com/gin-contrib/sse v0.1.0 // indirect
	github.com/go-ole/go-ole v1.2.6 // indirect
	github.com/go-openapi/jsonpointer v0.21.0 // indirect
	github.com/go-openapi/jsonreference v0.21.0 // indirect
	github.com/go-openapi/spec v0.21.0 // indirect
	github.com/go-openapi/swag v0.23.0 // indirect
	github.com/go-playground/locales v0.14.1 // indirect
	github.com/go-playground/universal-translator v0.18.1 // indirect
	github.com/go-playground/validator/v10 v10.23.0 // indirect
	github.com/goccy/go-json v0.10.4 // indirect
	github.com/inconshreveable/mousetrap v1.1.0 // indirect
	github.com/jezek/xgb v1.1.1 // indirect
	github.com/josharian/intern v1.0.0 // indirect
	github.com/json-iterator/go v1.1.12 // indirect
	github.com/klauspost/cpuid/v2 v2.2.9 // indirect
	github.com/leodido/go-urn v1.4.0 // indirect
	github.com/lucasb-eyer/go-colorful v1.2.0 // indirect
	github.com/lufia/plan9stats v0.0.0-20211012122336-39d0f177ccd0 // indirect
	github.com/mailru/easyjson v0.9.0 // indirect
	github.com/mattn/go-runewidth v0.0.16 // indirect
	github.com/modern-go/concurrent v0.0.0-20180306012644-bacd9c7ef1dd // indirect
	github.com/modern-go/reflect2 v1.0.2 // indirect
	github.com/pelletier/go-toml/v2 v2.2.3 // indirect
	github.com/power-devops/perfstat v0.0.0-20210106213030-5aafc221ea8c // indirect
	github.com/rivo/uniseg v0.4.7 // indirect
	github.com/russross/blackfriday/v2 v2.1.0 // indirect
	github.com/tklauser/go-sysconf v0.3.12 // indirect
	github.com/tklauser/numcpus v0.6.1 // indirect
	github.com/twitchyliquid64/golang-asm v0.15.1 // indirect
	github.com/ugorji/go/codec v1.2.12 // indirect
	github.com/yusufpapurcu/wmi v1.2.4 // indirect
	golang.org/x/arch v0.12.0 // indirect
	golang.org/x/crypto v0.31.0 // indirect
	golang.org/x/net v0.33.0 // indirect
	golang.org/x/text v0.21.0 // indirect
	golang.org/x/tools v0.28.0 // indirect
	google.golang.org/protobuf v1.35.2 // indirect
)

require (
	github.com/mattn/go-colorable v0.1.13 // indirect
	github.com/mattn/go-isatty v0.0.20 // indirect
	github.com/rs/zerolog v1.33.0
	github.com/swaggo/files v1.0.1
	github.com/swaggo/gin-swagger v1.6.0
	golang.org/x/sys v0.28.0 // indirect
)

require github.com/f1bonacc1/process-compose v0.0.0

replace github.com/f1bonacc1/process-compose => /repo
