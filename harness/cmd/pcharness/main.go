// pcharness: runs correspondence components against the real process-compose code
// (built from /repo's working tree with -tags verif).
//
//	pcharness gen <component> <seed> <tier> <out.ops>     generate + execute, write "op ||| impl" lines
//	pcharness replay <component> <in.ops> <out.ops>       execute the op halves of a file
package main

import (
	"bufio"
	"encoding/json"
	"fmt"
	"math/rand"
	"os"
	"strconv"
	"strings"

	"github.com/rs/zerolog"

	"verif/harness/comp"
)

type stats struct {
	Ops     int            `json:"ops"`
	ByOp    map[string]int `json:"by_op"`
	ByClass map[string]int `json:"by_result_class"`
	Samples []string       `json:"samples"`
}

func class(res string) string {
	switch {
	case res == "panic", res == "bad-op", res == "ok", res == "none":
		return res
	case strings.HasPrefix(res, "err"):
		return "error"
	case strings.HasPrefix(res, "["):
		if res == "[]" {
			return "empty-list"
		}
		return "list"
	}
	return "value"
}

func main() {
	zerolog.SetGlobalLevel(zerolog.Disabled)
	if len(os.Args) >= 7 && os.Args[1] == "raceworker" {
		comp.RaceWorker(os.Args[2:])
		return
	}
	if len(os.Args) < 3 {
		fmt.Fprintln(os.Stderr, "usage: pcharness gen|replay <component> ... ; components:", comp.Names())
		os.Exit(2)
	}
	mk, ok := comp.Registry[os.Args[2]]
	if !ok {
		fmt.Fprintln(os.Stderr, "unknown component", os.Args[2])
		os.Exit(2)
	}
	c := mk()
	st := &stats{ByOp: map[string]int{}, ByClass: map[string]int{}}
	var out *bufio.Writer
	emit := func(op string) {
		res := c.Exec(op)
		fmt.Fprintf(out, "%s ||| %s\n", op, res)
		st.Ops++
		st.ByOp[strings.SplitN(op, " ", 2)[0]]++
		st.ByClass[class(res)]++
		if len(st.Samples) < 6 && st.Ops%97 == 5 {
			st.Samples = append(st.Samples, op+" ||| "+res)
		}
	}
	switch os.Args[1] {
	case "gen":
		seed, _ := strconv.ParseInt(os.Args[3], 10, 64)
		f, err := os.Create(os.Args[5])
		if err != nil {
			panic(err)
		}
		out = bufio.NewWriterSize(f, 1<<20)
		c.Gen(rand.New(rand.NewSource(seed)), os.Args[4], emit)
		out.Flush()
		f.Close()
	case "replay":
		in, err := os.Open(os.Args[3])
		if err != nil {
			panic(err)
		}
		f, err := os.Create(os.Args[4])
		if err != nil {
			panic(err)
		}
		out = bufio.NewWriterSize(f, 1<<20)
		sc := bufio.NewScanner(in)
		sc.Buffer(make([]byte, 1<<20), 1<<26)
		for sc.Scan() {
			l := strings.TrimSpace(sc.Text())
			if l == "" || strings.HasPrefix(l, "#") {
				continue
			}
			emit(strings.TrimSpace(strings.SplitN(l, " ||| ", 2)[0]))
		}
		out.Flush()
		f.Close()
	}
	js, _ := json.Marshal(st)
	fmt.Println(string(js))
}
