package comp

import (
	"fmt"
	"math/rand"
	"net/http/httptest"
	"os"
	"runtime"
	"strconv"
	"strings"
	"sync"
	"time"

	"github.com/f1bonacc1/process-compose/src/api"
	"github.com/f1bonacc1/process-compose/src/app"
	"github.com/f1bonacc1/process-compose/src/client"
	"github.com/f1bonacc1/process-compose/src/types"
	"github.com/gin-gonic/gin"
)

// wsfollow: the WebSocket log stream end to end — api.HandleLogsStream / handleLog on a real runner
// behind a loopback HTTP server, followed by the bundled client.LogClient. Lines are written into the
// process's log buffer directly (VerifProcessLog), exactly as the output handler does. Free running
// (real sockets, real goroutines): every observation waits for quiescence, every call that may block
// runs under a watchdog.
type wsFollower struct {
	lc     *client.LogClient
	done   chan struct{}
	mu     sync.Mutex
	got    []string
	paused bool
	follow bool
	gate   chan struct{}
}

type wsfollow struct {
	srv      *httptest.Server
	r        *app.ProjectRunner
	addr     string
	fl       map[string]*wsFollower
	line     int
	writers  *sync.WaitGroup
	panicked chan string
}

func init() { Register("wsfollow", func() Component { return &wsfollow{} }) }

const wsWatch = 4 * time.Second

func (c *wsfollow) teardown() {
	for _, f := range c.fl {
		f.mu.Lock()
		if f.paused {
			f.paused = false
			close(f.gate)
		}
		f.mu.Unlock()
		if f.lc != nil {
			_ = f.lc.CloseChannel()
		}
	}
	if c.srv != nil {
		srv := c.srv
		go srv.Close() // may wait for handlers that never return (that is what the scenario found)
	}
	c.srv, c.fl = nil, nil
}

// compress turns the received lines ("L<n>") into ranges "a-b,c-d"; anything else is kept verbatim.
func compress(lines []string) string {
	if len(lines) == 0 {
		return "-"
	}
	out := []string{}
	start, prev := -2, -2
	flush := func() {
		if start >= 0 {
			out = append(out, fmt.Sprintf("%d-%d", start, prev))
		}
	}
	for _, l := range lines {
		n, err := strconv.Atoi(strings.TrimPrefix(l, "L"))
		if err != nil || !strings.HasPrefix(l, "L") {
			flush()
			start, prev = -2, -2
			out = append(out, "?"+Hex(l))
			continue
		}
		if n == prev+1 && start >= 0 {
			prev = n
			continue
		}
		flush()
		start, prev = n, n
	}
	flush()
	return strings.Join(out, ",")
}

// obsCount: observers of the process's log buffer (-1: the buffer's mutex is not released)
func (c *wsfollow) obsCount() int {
	res := make(chan int, 1)
	go func() { res <- c.r.VerifProcessLog("a").VerifObserverCount() }()
	select {
	case n := <-res:
		return n
	case <-time.After(wsWatch):
		return -1
	}
}

func (c *wsfollow) write(k int, payload string) string {
	fin := make(chan struct{})
	from := c.line
	c.line += k
	c.writers.Add(1)
	go func() {
		defer c.writers.Done()
		defer func() {
			if e := recover(); e != nil {
				select {
				case c.panicked <- fmt.Sprint(e):
				default:
				}
			}
			close(fin)
		}()
		buf := c.r.VerifProcessLog("a")
		for i := 0; i < k; i++ {
			buf.Write(fmt.Sprintf("L%d%s", from+i, payload))
		}
	}()
	select {
	case <-fin:
		select {
		case p := <-c.panicked:
			return "panic:" + Hex(p)
		default:
		}
		return "ok"
	case <-time.After(wsWatch):
		return "blocked"
	}
}

func (c *wsfollow) Exec(op string) string {
	w := strings.Fields(op)
	switch {
	case len(w) == 2 && w[0] == "wsnew":
		size, err := strconv.Atoi(w[1])
		if err != nil || size < 0 {
			return "bad-op"
		}
		c.teardown()
		prj := &types.Project{LogLength: size, Processes: map[string]types.ProcessConfig{
			"a": {Name: "a", ReplicaName: "a", Command: "true"}}}
		r, err := app.NewProjectRunner((&app.ProjectOpts{}).WithProject(prj).WithIsTuiOn(true))
		if err != nil {
			return "runner-error"
		}
		gin.SetMode(gin.ReleaseMode)
		c.r = r
		c.srv = httptest.NewServer(api.InitRoutes(false, api.NewPcApi(r)))
		c.addr = strings.TrimPrefix(c.srv.URL, "http://")
		c.fl = map[string]*wsFollower{}
		c.line = 0
		c.writers = &sync.WaitGroup{}
		c.panicked = make(chan string, 4)
		return "ok"
	case c.srv == nil:
		return "bad-op"
	case len(w) == 2 && w[0] == "w":
		k, err := strconv.Atoi(w[1])
		if err != nil || k < 0 || k > 100000 {
			return "bad-op"
		}
		return c.write(k, "")
	case len(w) == 2 && w[0] == "wbig":
		// k lines of 4 KiB each: more than any socket buffer plus the channel can hold
		k, err := strconv.Atoi(w[1])
		if err != nil || k < 0 || k > 100000 {
			return "bad-op"
		}
		return c.write(k, " "+strings.Repeat("x", 4096))
	case len(w) == 4 && w[0] == "sub":
		off, e1 := strconv.Atoi(w[2])
		if e1 != nil || (w[3] != "0" && w[3] != "1") || c.fl[w[1]] != nil {
			return "bad-op"
		}
		f := &wsFollower{lc: client.NewLogClient(c.addr, ""), follow: w[3] == "1"}
		before := c.obsCount()
		if before < 0 {
			return "blocked"
		}
		res := make(chan error, 1)
		go func() {
			d, err := f.lc.ReadProcessLogs("a", off, w[3] == "1", func(m api.LogMessage) {
				f.mu.Lock()
				for f.paused {
					g := f.gate
					f.mu.Unlock()
					<-g
					f.mu.Lock()
				}
				msg := m.Message
				if i := strings.IndexByte(msg, ' '); i > 0 {
					msg = msg[:i] // drop the padding of wbig lines
				}
				f.got = append(f.got, msg)
				f.mu.Unlock()
			})
			f.done = d
			res <- err
		}()
		select {
		case err := <-res:
			if err != nil {
				return "dial-error"
			}
		case <-time.After(wsWatch):
			return "blocked"
		}
		c.fl[w[1]] = f
		// the call has returned to the follower once the server has subscribed it (follow) or
		// has sent the whole tail and ended the stream (no follow)
		deadline := time.Now().Add(wsWatch)
		for time.Now().Before(deadline) {
			if f.follow {
				if n := c.obsCount(); n == before+1 {
					return "ok"
				} else if n < 0 {
					return "blocked"
				}
			} else {
				select {
				case <-f.done:
					return "ok"
				default:
				}
			}
			time.Sleep(2 * time.Millisecond)
		}
		return "blocked"
	case len(w) == 2 && w[0] == "got":
		f := c.fl[w[1]]
		if f == nil {
			return "none"
		}
		if f.follow {
			// one more line as a marker: everything written before it has arrived when it arrives
			marker := fmt.Sprintf("L%d", c.line)
			if r := c.write(1, ""); r != "ok" {
				return r
			}
			deadline := time.Now().Add(wsWatch)
			for time.Now().Before(deadline) {
				f.mu.Lock()
				ok := len(f.got) > 0 && f.got[len(f.got)-1] == marker
				f.mu.Unlock()
				if ok {
					break
				}
				time.Sleep(2 * time.Millisecond)
			}
		}
		closed := 0
		select {
		case <-f.done:
			closed = 1
		default:
		}
		f.mu.Lock()
		defer f.mu.Unlock()
		return fmt.Sprintf("lines=%s closed=%d", compress(f.got), closed)
	case len(w) == 2 && w[0] == "unsub":
		f := c.fl[w[1]]
		if f == nil {
			return "none"
		}
		before := c.obsCount()
		_ = f.lc.CloseChannel()
		delete(c.fl, w[1])
		select {
		case <-f.done:
		case <-time.After(wsWatch):
			return "client-not-closed"
		}
		if f.follow {
			// the server has unsubscribed the follower
			deadline := time.Now().Add(wsWatch)
			for c.obsCount() != before-1 {
				if time.Now().After(deadline) {
					return "still-subscribed"
				}
				time.Sleep(2 * time.Millisecond)
			}
		}
		return "ok"
	case len(w) == 2 && w[0] == "pause":
		f := c.fl[w[1]]
		if f == nil {
			return "none"
		}
		f.mu.Lock()
		if !f.paused {
			f.paused, f.gate = true, make(chan struct{})
		}
		f.mu.Unlock()
		return "ok"
	case len(w) == 2 && w[0] == "resume":
		f := c.fl[w[1]]
		if f == nil {
			return "none"
		}
		f.mu.Lock()
		if f.paused {
			f.paused = false
			close(f.gate)
		}
		f.mu.Unlock()
		// writers that were held up finish now
		fin := make(chan struct{})
		wg := c.writers
		go func() { wg.Wait(); close(fin) }()
		select {
		case <-fin:
			return "ok"
		case <-time.After(3 * wsWatch):
			return "writers-still-blocked"
		}
	case len(w) == 3 && w[0] == "rrange":
		// the same request through the REST route and the bundled client (path parameters as given)
		off, e1 := strconv.Atoi(w[1])
		lim, e2 := strconv.Atoi(w[2])
		if e1 != nil || e2 != nil {
			return "bad-op"
		}
		host, portS, _ := strings.Cut(c.addr, ":")
		port, _ := strconv.Atoi(portS)
		cl := client.NewTcpClient(host, port, 100)
		res := make(chan string, 1)
		go func() {
			l, err := cl.GetProcessLog("a", off, lim)
			if err != nil {
				res <- "error"
				return
			}
			res <- "lines=" + compress(l)
		}()
		select {
		case s := <-res:
			return s
		case <-time.After(wsWatch):
			return "blocked"
		}
	case len(w) == 3 && w[0] == "range":
		off, e1 := strconv.Atoi(w[1])
		lim, e2 := strconv.Atoi(w[2])
		if e1 != nil || e2 != nil {
			return "bad-op"
		}
		res := make(chan string, 1)
		go func() {
			defer func() {
				if e := recover(); e != nil {
					res <- "panic"
				}
			}()
			l, err := c.r.GetProcessLog("a", off, lim)
			if err != nil {
				res <- "error"
				return
			}
			res <- "lines=" + compress(l)
		}()
		select {
		case s := <-res:
			return s
		case <-time.After(wsWatch):
			return "blocked"
		}
	case len(w) == 3 && w[0] == "churn":
		// k lines written as fast as possible while n followers connect and leave one after another
		k, e1 := strconv.Atoi(w[1])
		n, e2 := strconv.Atoi(w[2])
		if e1 != nil || e2 != nil || k < 0 || n < 0 || k > 1000000 {
			return "bad-op"
		}
		fin := make(chan string, 1)
		from := c.line
		c.line += k
		base := c.obsCount()
		go func() {
			defer func() {
				if e := recover(); e != nil {
					fin <- "panic"
				}
			}()
			buf := c.r.VerifProcessLog("a")
			for i := 0; i < k; i++ {
				buf.Write(fmt.Sprintf("L%d", from+i))
			}
			fin <- "ok"
		}()
		for i := 0; i < n; i++ {
			lc := client.NewLogClient(c.addr, "")
			d, err := lc.ReadProcessLogs("a", 3, true, func(m api.LogMessage) {})
			if err != nil {
				return "dial-error"
			}
			time.Sleep(time.Duration(i%4) * time.Millisecond)
			_ = lc.CloseChannel()
			select {
			case <-d:
			case <-time.After(wsWatch):
			}
		}
		select {
		case s := <-fin:
			if s != "ok" {
				return s
			}
			// every follower that left has been unsubscribed by the server
			deadline := time.Now().Add(wsWatch)
			for c.obsCount() != base {
				if time.Now().After(deadline) {
					return "observers-left-behind"
				}
				time.Sleep(2 * time.Millisecond)
			}
			return "ok"
		case <-time.After(2 * wsWatch):
			if os.Getenv("WS_DUMP") != "" {
				b := make([]byte, 1<<20)
				os.Stderr.Write(b[:runtime.Stack(b, true)])
			}
			return "blocked"
		}
	}
	return "bad-op"
}

func (c *wsfollow) Gen(r *rand.Rand, tier string, emit func(string)) {
	cases := 10
	if tier == "thorough" {
		cases = 60
	}
	ids := []string{"f", "g", "h"}
	for k := 0; k < cases; k++ {
		size := []int{0, 3, 50, 400, 1000}[r.Intn(5)]
		emit(fmt.Sprintf("wsnew %d", size))
		emit(fmt.Sprintf("w %d", []int{0, 1, 7, 120, 300, 700}[r.Intn(6)]))
		live := map[string]bool{}
		paused := map[string]bool{}
		nofollow := map[string]bool{}
		steps := 4 + r.Intn(7)
		for i := 0; i < steps; i++ {
			id := ids[r.Intn(3)]
			switch x := r.Intn(100); {
			case x < 30:
				// writes stay small while a follower is paused: at most 200 lines in all fit the channel for certain
				if len(paused) > 0 {
					emit(fmt.Sprintf("w %d", r.Intn(20)))
				} else {
					emit(fmt.Sprintf("w %d", []int{1, 2, 30, 257, 600}[r.Intn(5)]))
				}
			case x < 55:
				if !live[id] {
					// tails around the channel capacity (256) and around what exists
					follow := 1
					if r.Intn(4) == 0 {
						follow = 0
					}
					emit(fmt.Sprintf("sub %s %d %d", id, []int{-1, 0, 1, 5, 100, 255, 256, 257, 300, 2000}[r.Intn(10)], follow))
					live[id] = true
					nofollow[id] = follow == 0
				}
			case x < 75:
				if live[id] && !paused[id] {
					emit("got " + id)
				}
			case x < 85:
				if live[id] && !paused[id] {
					emit("unsub " + id)
					delete(live, id)
				}
			case x < 90:
				emit(fmt.Sprintf("range %d %d", r.Intn(400)-2, r.Intn(300)-2))
			default:
				if live[id] && !paused[id] && len(paused) == 0 && !nofollow[id] {
					emit("pause " + id)
					paused[id] = true
					emit(fmt.Sprintf("w %d", 1+r.Intn(100)))
					emit(fmt.Sprintf("range %d %d", r.Intn(50), 0))
					emit("resume " + id)
					delete(paused, id)
					emit("got " + id)
				}
			}
		}
		for _, id := range ids {
			if live[id] {
				emit("got " + id)
			}
		}
		emit("range 100000 0")
	}
	// followers leaving while the process writes at full speed
	for k := 0; k < cases/5+1; k++ {
		emit(fmt.Sprintf("wsnew %d", 100))
		emit("w 10")
		emit(fmt.Sprintf("churn %d %d", 20000+r.Intn(20000), 4+r.Intn(6)))
		emit("range 5 0")
		emit("sub f 2 1")
		emit("w 3")
		emit("got f")
	}
	// range requests with extreme numbers, on the runner and through the REST route
	emit("wsnew 100")
	emit("w 7")
	for _, o := range []string{"3", "0", "9223372036854775807", "-9223372036854775808", "7"} {
		for _, l := range []string{"9223372036854775807", "-9223372036854775808", "2", "0"} {
			emit(fmt.Sprintf("range %s %s", o, l))
			emit(fmt.Sprintf("rrange %s %s", o, l))
		}
	}
	// a follower that stops reading (known finding B1): the writer must not be held up
	emit("wsnew 100")
	emit("w 10")
	emit("sub f 4 1")
	emit("got f")
	emit("pause f")
	emit("wbig 6000")
	emit("range 3 0")
	emit("resume f")
	emit("got f")
	emit("wsnew 0")
}
