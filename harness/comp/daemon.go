package comp

// Component `daemon`: the life cycle of one background (is_daemon) or ordinary process with a
// liveness probe and an optional shutdown command, driven sequentially (after every request or
// event every runnable goroutine is run to its next blocking point, lowest key first) on the real
// ProjectRunner under the cooperative scheduler with the fake commander.
//
//	dinit <policy> <max_restarts> <daemon 0|1> <shutdown-command 0|1> <exit code on signal | ign>
//	dexit <code>    the launcher / command exits by itself
//	dlive           the liveness probe fails for the failure_threshold-th time in a row
//	dstop | dstart      API requests on the process
//	dquery          nothing happens (the state is reported)

import (
	"fmt"
	"math/rand"
	"strings"

	"github.com/f1bonacc1/process-compose/src/verif"
)

type daemonC struct {
	h    *supH
	api  int
	seen []string // the views returned by the steps of the current operation (they carry the observations)
}

func init() { Register("daemon", func() Component { return &daemonC{} }) }

func (c *daemonC) drainAll() string {
	for i := 0; i < 400 && !c.h.dead; i++ {
		en := c.h.enabledKeys()
		if len(en) == 0 {
			return ""
		}
		r := c.h.Exec("s run " + en[0])
		c.seen = append(c.seen, r)
		if strings.HasPrefix(r, "DIVERGED") {
			return r
		}
	}
	return "LIVELOCK"
}

func (c *daemonC) summary(ret string) string {
	r := c.h.r
	st, err := r.GetProcessState("a")
	if err != nil {
		return "state-error"
	}
	alive, launches := 0, 0
	for _, fc := range c.h.cmds {
		launches++
		if fc.alive {
			alive++
		}
	}
	blocked := []string{}
	ts, keys := c.h.threadKeys()
	for i, t := range ts {
		if !t.Done && (strings.HasPrefix(keys[i], "proc:") || strings.HasPrefix(keys[i], "api:")) && !strings.HasPrefix(keys[i], "api:0#") {
			blocked = append(blocked, strings.SplitN(keys[i], ":", 2)[0]+"@"+t.Label)
		}
	}
	verif.S.TakeLog()
	return fmt.Sprintf("ret=%s status=%s running=%v exit=%d restarts=%d alive=%d launches=%d blocked=%s", ret, st.Status, st.IsRunning,
		st.ExitCode, st.Restarts, alive, launches, sortedJoin(blocked))
}

func (c *daemonC) call(args string) string {
	c.api++
	id := fmt.Sprintf("%d", c.api)
	c.seen = nil
	if r := c.h.Exec("s call " + id + " " + args); strings.HasPrefix(r, "DIVERGED") {
		return "?"
	}
	if d := c.drainAll(); d != "" {
		return d
	}
	for _, v := range c.seen {
		if i := strings.Index(v, "ret "+id+" "); i >= 0 {
			rest := v[i+len("ret "+id+" "):]
			return strings.FieldsFunc(rest, func(r rune) bool { return r == ';' || r == ' ' })[0]
		}
	}
	return "no-return"
}

func (c *daemonC) Exec(op string) string {
	w := strings.Fields(op)
	if len(w) == 0 {
		return "bad-op"
	}
	if w[0] == "dinit" {
		if len(w) != 6 {
			return "bad-op"
		}
		c.h = &supH{}
		c.api = 0
		c.h.reset("coarse", false)
		flags := "v"
		if w[3] == "1" {
			flags += "D"
		}
		if w[4] == "1" {
			flags += "C"
		}
		c.h.Exec(fmt.Sprintf("proc a %s %s %s 0 0 %s -", w[1], w[2], flags, w[5]))
		c.h.Exec("init")
		c.h.Exec("s call 0 run")
		if d := c.drainAll(); d != "" {
			return d
		}
		return c.summary("ok")
	}
	if c.h == nil || c.h.dead || c.h.r == nil {
		return "DEAD"
	}
	ret := "ok"
	switch w[0] {
	case "dexit":
		if len(w) != 2 {
			return "bad-op"
		}
		c.h.Exec("s exit a " + w[1])
	case "dlive":
		// (a second notification while one is queued would block its sender for ever: not generated)
		if c.h.r.VerifDaemonNotifyPending("a") {
			ret = "notification-queued"
		} else if !c.h.r.VerifProbeResult("a", "live", 3, "failed") {
			ret = "no-prober"
		}
		if d := c.h.settle(); d != "" {
			return d
		}
	case "dstop":
		if c.h.r.VerifDaemonNotifyPending("a") {
			ret = "notification-queued"
		} else {
			ret = c.call("stop a")
		}
	case "dstart":
		ret = c.call("start a")
	case "dquery":
	default:
		return "bad-op"
	}
	if d := c.drainAll(); d != "" {
		return d
	}
	return c.summary(ret)
}

func (c *daemonC) Gen(r *rand.Rand, tier string, emit func(string)) {
	n := 60
	if tier == "thorough" {
		n = 1500
	}
	pols := []string{"no", "always", "on_failure", "exit_on_failure"}
	// directed: a stop that lands while the launcher of a daemon still runs (with and without a
	// shutdown command), a stop of a launched daemon, a liveness failure of a launched daemon
	for _, pol := range pols {
		for _, sig := range []string{"0", "ign"} {
			for _, seq := range [][]string{
				{"1 1", "dstop", "dexit 0", "dquery"},
				{"1 0", "dstop", "dexit 0", "dquery"},
				{"1 1", "dstop", "dexit 1", "dquery"},
				{"1 1", "dexit 0", "dstop", "dquery"},
				{"1 1", "dexit 0", "dlive", "dquery", "dexit 0", "dquery"},
				{"1 1", "dexit 0", "dstop", "dstart", "dexit 0", "dquery"},
			} {
				emit(fmt.Sprintf("dinit %s 0 %s %s", pol, seq[0], sig))
				for _, o := range seq[1:] {
					emit(o)
				}
			}
		}
	}
	for k := 0; k < n; k++ {
		emit(fmt.Sprintf("dinit %s %d %d %d %s", pols[r.Intn(4)], []int{0, 0, 2}[r.Intn(3)], []int{1, 1, 0}[r.Intn(3)], r.Intn(2),
			[]string{"0", "143", "ign"}[r.Intn(3)]))
		steps := 2 + r.Intn(6)
		for i := 0; i < steps; i++ {
			switch r.Intn(8) {
			case 0, 1:
				emit(fmt.Sprintf("dexit %d", []int{0, 0, 1, -1}[r.Intn(4)]))
			case 2, 3:
				emit("dlive")
			case 4:
				emit("dstop")
			case 5, 6:
				emit("dstart")
			default:
				emit("dquery")
			}
		}
	}
}
