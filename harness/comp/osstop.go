package comp

import (
	"fmt"
	"math/rand"
	"os"
	"os/exec"
	"os/signal"
	"path/filepath"
	"sort"
	"strconv"
	"strings"
	"sync"
	"syscall"
	"time"

	"github.com/f1bonacc1/process-compose/src/app"
	"github.com/f1bonacc1/process-compose/src/loader"
	"github.com/f1bonacc1/process-compose/src/verif"
)

// osstop: real processes. A generated tree of `sh` members (children, grandchildren; members that
// trap the stop signals; members that redirect their output) is launched by the real runner with
// the real command wrapper (Setpgid, kill(-pgid)), or by the built process-compose binary, and
// stopped through StopProcess / ShutDownProject / a signal to the binary. Observed: the signals
// each member recorded, which members are alive afterwards, when trapped members died, whether
// the shutdown command ran with the process's environment and working directory.
type osstopC struct {
	cache map[string]string
	mu    sync.Mutex
	n     int
}

func init() { Register("osstop", func() Component { return &osstopC{cache: map[string]string{}} }) }

var osSigOnce sync.Once

// defaultSignalDispositions makes sure the scenario processes start with the default disposition
// of the signals the scenarios use: a harness started under nohup (SIGHUP ignored) or from a
// background job would otherwise hand the ignored state down to every member, and sh cannot trap
// a signal that was ignored on entry. Catching the signals here resets them to default in children.
func defaultSignalDispositions() {
	osSigOnce.Do(func() {
		sink := make(chan os.Signal, 8)
		signal.Notify(sink, syscall.SIGHUP, syscall.SIGUSR1, syscall.SIGUSR2)
		go func() {
			for range sink {
			}
		}()
	})
}

type osMember struct {
	id       string
	ignore   bool
	redirect bool
	parent   string
}

func parseTree(s string) ([]osMember, bool) {
	out := []osMember{}
	for _, e := range strings.Split(s, ",") {
		f := strings.Split(e, ":")
		if len(f) != 3 {
			return nil, false
		}
		out = append(out, osMember{id: f[0], ignore: strings.Contains(f[1], "i"), redirect: strings.Contains(f[1], "r"), parent: f[2]})
	}
	return out, len(out) > 0 && out[0].parent == "-"
}

func memberScript(dir string, m osMember, all []osMember) string {
	var b strings.Builder
	b.WriteString("#!/bin/sh\n")
	fmt.Fprintf(&b, "echo $$ > %s/%s.pid\n", dir, m.id)
	for _, sg := range [][2]string{{"TERM", "15"}, {"INT", "2"}, {"HUP", "1"}, {"USR1", "10"}, {"USR2", "12"}} {
		if m.ignore {
			fmt.Fprintf(&b, "trap 'echo %s >> %s/%s.sig' %s\n", sg[1], dir, m.id, sg[0])
		} else {
			fmt.Fprintf(&b, "trap 'echo %s >> %s/%s.sig; exit 0' %s\n", sg[1], dir, m.id, sg[0])
		}
	}
	for _, c := range all {
		if c.parent == m.id {
			if c.redirect {
				fmt.Fprintf(&b, "sh %s/%s.sh >/dev/null 2>&1 </dev/null &\n", dir, c.id)
			} else {
				fmt.Fprintf(&b, "sh %s/%s.sh &\n", dir, c.id)
			}
		}
	}
	fmt.Fprintf(&b, "touch %s/%s.up\n", dir, m.id)
	b.WriteString("while :; do sleep 0.05; done\n")
	return b.String()
}

func pidAlive(pid int, mark string) bool {
	if pid <= 0 {
		return false
	}
	st, err := os.ReadFile(fmt.Sprintf("/proc/%d/stat", pid))
	if err != nil {
		return false
	}
	// state is the field after the closing parenthesis of the command name
	s := string(st)
	if i := strings.LastIndex(s, ")"); i >= 0 && i+2 < len(s) {
		if s[i+2] == 'Z' || s[i+2] == 'X' {
			return false
		}
	}
	env, err := os.ReadFile(fmt.Sprintf("/proc/%d/environ", pid))
	if err != nil {
		return false
	}
	return strings.Contains(string(env), "PCV_MARK="+mark)
}

func killMarked(mark string) {
	ents, _ := os.ReadDir("/proc")
	for _, e := range ents {
		pid, err := strconv.Atoi(e.Name())
		if err != nil || pid == os.Getpid() {
			continue
		}
		env, err := os.ReadFile(fmt.Sprintf("/proc/%d/environ", pid))
		if err == nil && strings.Contains(string(env), "PCV_MARK="+mark) {
			_ = syscall.Kill(pid, syscall.SIGKILL)
		}
	}
}

func readPid(dir, id string) int {
	b, err := os.ReadFile(filepath.Join(dir, id+".pid"))
	if err != nil {
		return 0
	}
	n, _ := strconv.Atoi(strings.TrimSpace(string(b)))
	return n
}

// scenario runs one stop scenario on real processes.
func (c *osstopC) scenario(sig, timeout int, cmdKind string, parentOnly bool, tree []osMember, via string) string {
	defaultSignalDispositions()
	c.mu.Lock()
	c.n++
	mark := fmt.Sprintf("m%d_%d_%d", os.Getpid(), c.n, time.Now().UnixNano()%1000000)
	c.mu.Unlock()
	dir, err := os.MkdirTemp("", "pcos")
	if err != nil {
		return "setup-error"
	}
	defer os.RemoveAll(dir)
	defer killMarked(mark)
	for _, m := range tree {
		_ = os.WriteFile(filepath.Join(dir, m.id+".sh"), []byte(memberScript(dir, m, tree)), 0o755)
	}
	root := tree[0].id
	shut := ""
	switch cmdKind {
	case "ok":
		shut = fmt.Sprintf("echo \"$$PCV_MARK $$(pwd)\" > %s/cmd.ran; kill -TERM $$(cat %s/%s.pid)", dir, dir, root)
	case "fail", "nostart":
		shut = fmt.Sprintf("echo \"$$PCV_MARK $$(pwd)\" > %s/cmd.ran; exit 3", dir)
	case "slow":
		shut = fmt.Sprintf("echo \"$$PCV_MARK $$(pwd)\" > %s/cmd.ran; sleep 4", dir)
	case "slowfork":
		// the shell forks the slow part (it is not its last command): when the timeout kills the shell, a
		// child of the shutdown command is still around for a while
		shut = fmt.Sprintf("echo \"$$PCV_MARK $$(pwd)\" > %s/cmd.ran; sleep 4; true", dir)
	}
	// `nostart`: the shutdown command cannot even be launched - the process's working directory is
	// removed while it runs (a launch failure, not a non-zero exit)
	wd := dir
	if cmdKind == "nostart" {
		wd = filepath.Join(dir, "wd")
		_ = os.Mkdir(wd, 0o755)
	}
	var y strings.Builder
	fmt.Fprintf(&y, "processes:\n  t:\n    command: \"sh %s/%s.sh\"\n    working_dir: \"%s\"\n    environment:\n      - \"PCV_MARK=%s\"\n    shutdown:\n      signal: %d\n      timeout_seconds: %d\n      parent_only: %v\n", dir, root, wd, mark, sig, timeout, parentOnly)
	if shut != "" {
		fmt.Fprintf(&y, "      command: %q\n", shut)
	}
	file := filepath.Join(dir, "pc.yaml")
	_ = os.WriteFile(file, []byte(y.String()), 0o644)

	waitUp := func() bool {
		deadline := time.Now().Add(6 * time.Second)
		for time.Now().Before(deadline) {
			ok := true
			for _, m := range tree {
				if _, err := os.Stat(filepath.Join(dir, m.id+".up")); err != nil {
					ok = false
				}
			}
			if ok {
				return true
			}
			time.Sleep(10 * time.Millisecond)
		}
		return false
	}

	ret := "ok"
	stopReturned := make(chan struct{})
	var t0 time.Time
	var binCmd *exec.Cmd
	runDone := make(chan struct{})
	if strings.HasPrefix(via, "bin") {
		bin := os.Getenv("PC_BIN")
		if bin == "" {
			return "no-binary"
		}
		binCmd = exec.Command(bin, "-f", file, "-t=false", "--no-server", "-L", filepath.Join(dir, "pc.log"))
		binCmd.Env = append(os.Environ(), "PC_DISABLE_TUI=1")
		binCmd.Stdout, binCmd.Stderr = nil, nil
		binCmd.SysProcAttr = &syscall.SysProcAttr{Setpgid: true}
		if err := binCmd.Start(); err != nil {
			return "binary-start-error"
		}
		go func() { _ = binCmd.Wait(); close(runDone) }()
		defer func() { _ = binCmd.Process.Kill() }()
		if !waitUp() {
			return "not-up"
		}
		if cmdKind == "nostart" {
			_ = os.RemoveAll(wd)
		}
		t0 = time.Now()
		sigOf := map[string]syscall.Signal{"TERM": syscall.SIGTERM, "INT": syscall.SIGINT, "HUP": syscall.SIGHUP}
		if strings.HasPrefix(via, "bin2") {
			// a second signal arrives while the shutdown started by the first is still under way
			// (Ctrl+C twice, a closing terminal after SIGTERM): it must not cut the shutdown short
			_ = binCmd.Process.Signal(syscall.SIGTERM)
			second := sigOf[strings.TrimPrefix(via, "bin2")]
			go func() {
				time.Sleep(250 * time.Millisecond)
				select {
				case <-runDone:
				default:
					_ = binCmd.Process.Signal(second)
				}
			}()
		} else {
			_ = binCmd.Process.Signal(sigOf[strings.TrimPrefix(via, "bin")])
		}
		go func() { <-runDone; close(stopReturned) }()
	} else {
		prj, err := loader.Load(&loader.LoaderOptions{FileNames: []string{file}, IsInternalLoader: true})
		if err != nil {
			return "load-error"
		}
		r, err := app.NewProjectRunner((&app.ProjectOpts{}).WithProject(prj).WithIsTuiOn(true))
		if err != nil {
			return "runner-error"
		}
		go func() { _ = r.Run(); close(runDone) }()
		if !waitUp() {
			killMarked(mark)
			return "not-up"
		}
		// the supervisor must have seen the launch
		for i := 0; i < 200; i++ {
			if st, err := r.GetProcessState("t"); err == nil && st.Status == "Running" {
				break
			}
			time.Sleep(5 * time.Millisecond)
		}
		if cmdKind == "nostart" {
			_ = os.RemoveAll(wd)
		}
		t0 = time.Now()
		go func() {
			var e error
			if via == "shutdown" {
				e = r.ShutDownProject()
			} else {
				e = r.StopProcess("t")
			}
			// the error value is not part of the observation: when the process dies before the kill
			// timer is armed, the timer still fires and the late SIGKILL reports ESRCH
			_ = e
			close(stopReturned)
		}()
		defer func() {
			// end whatever is left first: a member that traps the signal (and no timeout) would
			// keep a shutdown waiting for ever
			killMarked(mark)
			done := make(chan struct{})
			go func() { _ = r.ShutDownProject(); close(done) }()
			select {
			case <-done:
			case <-time.After(3 * time.Second):
			}
		}()
	}

	// watch the members die
	pids := map[string]int{}
	for _, m := range tree {
		pids[m.id] = readPid(dir, m.id)
	}
	death := map[string]time.Duration{}
	settle := time.Duration(timeout)*time.Second + 900*time.Millisecond
	if cmdKind == "slow" && timeout == 0 {
		settle = 11 * time.Second
	}
	deadline := t0.Add(settle)
	returned := false
	for {
		for _, m := range tree {
			if _, dead := death[m.id]; !dead && !pidAlive(pids[m.id], mark) {
				death[m.id] = time.Since(t0)
			}
		}
		select {
		case <-stopReturned:
			returned = true
		default:
		}
		if time.Now().After(deadline) && (returned || time.Now().After(deadline.Add(6*time.Second))) {
			break
		}
		time.Sleep(5 * time.Millisecond)
	}
	if !returned {
		ret = "timeout"
	}
	// results
	sigs := []string{}
	alive := []string{}
	for _, m := range tree {
		b, _ := os.ReadFile(filepath.Join(dir, m.id+".sig"))
		l := strings.Fields(string(b))
		// a trapped signal may be recorded more than once (the binary's own group is separate; repeated sends are not expected)
		uniq := []string{}
		for _, x := range l {
			if len(uniq) == 0 || uniq[len(uniq)-1] != x {
				uniq = append(uniq, x)
			}
		}
		if len(uniq) > 0 {
			sigs = append(sigs, m.id+"="+strings.Join(uniq, "+"))
		}
		if _, dead := death[m.id]; !dead {
			alive = append(alive, m.id)
		}
	}
	sort.Strings(sigs)
	sort.Strings(alive)
	// earliest death of a member that traps the signals (only SIGKILL ends it)
	kill := "none"
	var first time.Duration = -1
	for _, m := range tree {
		if d, dead := death[m.id]; dead && m.ignore {
			if first < 0 || d < first {
				first = d
			}
		}
	}
	if first >= 0 {
		if timeout > 0 && first >= time.Duration(timeout)*time.Second+2500*time.Millisecond {
			// the escalation came, but long after the configured timeout had elapsed
			kill = "late"
		} else if first >= time.Duration(timeout)*time.Second-40*time.Millisecond && timeout > 0 {
			kill = "ge"
		} else {
			kill = "lt"
		}
	}
	cmd := "no"
	if b, err := os.ReadFile(filepath.Join(dir, "cmd.ran")); err == nil {
		f := strings.Fields(string(b))
		cmd = "ran"
		if len(f) == 2 && f[0] == mark {
			cmd += ":env"
		}
		if len(f) == 2 && f[1] == dir {
			cmd += ":dir"
		}
	}
	join := func(l []string) string {
		if len(l) == 0 {
			return "-"
		}
		return strings.Join(l, ";")
	}
	return fmt.Sprintf("ret=%s sigs=%s alive=%s kill=%s cmd=%s", ret, join(sigs), join(alive), kill, cmd)
}

func (c *osstopC) parse(op string) (func() string, bool) {
	w := strings.Fields(op)
	if len(w) != 7 || w[0] != "os" {
		return nil, false
	}
	sig, e1 := strconv.Atoi(w[1])
	timeout, e2 := strconv.Atoi(w[2])
	tree, ok := parseTree(w[5])
	if e1 != nil || e2 != nil || !ok {
		return nil, false
	}
	return func() string { return c.scenario(sig, timeout, w[3], w[4] == "1", tree, w[6]) }, true
}

func (c *osstopC) Exec(op string) string {
	c.mu.Lock()
	if r, ok := c.cache[op]; ok {
		delete(c.cache, op)
		c.mu.Unlock()
		return r
	}
	c.mu.Unlock()
	verif.Reset(false, false)
	app.VerifCommander = nil
	app.VerifBackoff = nil
	app.VerifStopCtx = nil
	app.VerifStopCtxOf = nil
	f, ok := c.parse(op)
	if !ok {
		return "bad-op"
	}
	return f()
}

var osTrees = []string{
	"p::-",
	"p:i:-",
	"p::-,c::p",
	"p::-,c:i:p",
	"p::-,c:ir:p",
	"p::-,c:r:p",
	"p:i:-,c::p",
	"p:i:-,c:i:p,g:ir:c",
	"p::-,c::p,g:i:c",
	"p::-,c::p,g:ir:c",
	"p::-,c::p,d:i:p,g::c",
}

func (c *osstopC) Gen(r *rand.Rand, tier string, emit func(string)) {
	n := 28
	if tier == "thorough" {
		n = 320
	}
	ops := []string{}
	if os.Getenv("PC_BIN") != "" {
		// directed: a second signal to the binary while the shutdown waits for a trapping member's timeout
		ops = append(ops, "os 15 1 - 0 p:i:- bin2HUP", "os 15 2 - 0 p::-,c:i:p bin2INT", "os 0 1 - 0 p:i:-,c::p bin2TERM")
	}
	// directed: a shutdown command that outlives the timeout and has forked a child
	ops = append(ops, "os 15 1 slowfork 0 p:i:- api", "os 15 1 slowfork 0 p:i:-,c::p shutdown")
	seen := map[string]bool{}
	for len(ops) < n {
		// SIGINT is left out as a configured signal: sh starts background children with SIGINT ignored
		sig := []int{0, 15, 1, 10, 99, -3, 9, 12}[r.Intn(8)]
		timeout := []int{0, 1, 1, 1, 2}[r.Intn(5)]
		cmd := "-"
		if r.Intn(5) == 0 {
			cmd = []string{"ok", "fail", "slow", "nostart"}[r.Intn(4)]
			if cmd == "slow" {
				timeout = 1
			}
		}
		po := r.Intn(4) == 0
		tree := osTrees[r.Intn(len(osTrees))]
		via := []string{"api", "api", "shutdown", "binTERM", "binINT", "binHUP", "bin2HUP", "bin2INT", "bin2TERM"}[r.Intn(9)]
		if os.Getenv("PC_BIN") == "" && strings.HasPrefix(via, "bin") {
			via = "shutdown"
		}
		op := fmt.Sprintf("os %d %d %s %d %s %s", sig, timeout, cmd, map[bool]int{false: 0, true: 1}[po], tree, via)
		if !seen[op] {
			seen[op] = true
			ops = append(ops, op)
		}
	}
	// run the scenarios in parallel, then hand them out in order
	verif.Reset(false, false)
	app.VerifCommander = nil
	app.VerifBackoff = nil
	app.VerifStopCtx = nil
	app.VerifStopCtxOf = nil
	sem := make(chan struct{}, 12)
	var wg sync.WaitGroup
	for _, op := range ops {
		f, ok := c.parse(op)
		if !ok {
			continue
		}
		wg.Add(1)
		sem <- struct{}{}
		go func(op string, f func() string) {
			defer wg.Done()
			defer func() { <-sem }()
			res := f()
			c.mu.Lock()
			c.cache[op] = res
			c.mu.Unlock()
		}(op, f)
	}
	wg.Wait()
	for _, op := range ops {
		emit(op)
	}
}
