package comp

import (
	"context"
	"errors"
	"fmt"
	"io"
	"math/rand"
	"os"
	"sort"
	"strconv"
	"strings"
	"sync"
	"time"

	"github.com/f1bonacc1/process-compose/src/app"
	"github.com/f1bonacc1/process-compose/src/command"
	"github.com/f1bonacc1/process-compose/src/health"
	"github.com/f1bonacc1/process-compose/src/types"
	"github.com/f1bonacc1/process-compose/src/verif"
)

// sup: the real ProjectRunner driven by the cooperative scheduler with fake commands.

// ---------- fake pipe ----------

type fakePipe struct {
	mu      sync.Mutex
	cond    *sync.Cond
	buf     []byte
	closed  bool
	waiting bool
}

func newFakePipe() *fakePipe {
	p := &fakePipe{}
	p.cond = sync.NewCond(&p.mu)
	return p
}

func (p *fakePipe) Read(b []byte) (int, error) {
	p.mu.Lock()
	defer p.mu.Unlock()
	for len(p.buf) == 0 && !p.closed {
		p.waiting = true
		p.cond.Broadcast()
		p.cond.Wait()
	}
	p.waiting = false
	if len(p.buf) > 0 {
		n := copy(b, p.buf)
		p.buf = p.buf[n:]
		return n, nil
	}
	return 0, io.EOF
}

func (p *fakePipe) Close() error {
	p.mu.Lock()
	p.closed = true
	p.cond.Broadcast()
	p.mu.Unlock()
	return nil
}

// feed hands data to the reader and waits until it has consumed it and is idle again.
func (p *fakePipe) feed(data []byte) {
	p.mu.Lock()
	p.buf = append(p.buf, data...)
	p.cond.Broadcast()
	deadline := time.Now().Add(2 * time.Second)
	for !(len(p.buf) == 0 && p.waiting) && time.Now().Before(deadline) {
		p.mu.Unlock()
		time.Sleep(20 * time.Microsecond)
		p.mu.Lock()
	}
	p.mu.Unlock()
}

// ---------- fake command ----------

type fakeCmd struct {
	h      *supH
	name   string
	conf   *types.ProcessConfig // the live configuration of the process (follows renames)
	alive  bool
	exited bool
	code   int
	out    *fakePipe
	errp   *fakePipe
	env    []string
	dir    string
}

func (c *fakeCmd) VerifExited() bool { return c.exited }

func (c *fakeCmd) closePipes() {
	before := verif.CounterPrefix("outdone:")
	n := 0
	if c.out != nil {
		c.out.Close()
		n++
	}
	if c.errp != nil {
		c.errp.Close()
		n++
	}
	deadline := time.Now().Add(2 * time.Second)
	for verif.CounterPrefix("outdone:") < before+n && time.Now().Before(deadline) {
		time.Sleep(20 * time.Microsecond)
	}
}

func (c *fakeCmd) exit(code int) {
	if !c.alive {
		return
	}
	c.alive = false
	c.code = code
	c.exited = true
	c.closePipes()
}

func (c *fakeCmd) Stop(sig int, _ bool) error {
	verif.Obs("stop %s %d", c.name, sig)
	c.h.stopLog = append(c.h.stopLog, c.name)
	if c.alive {
		cfg := c.h.cfg[c.name]
		if sig == 9 {
			c.exit(-1)
		} else if cfg.onSignal != "ign" {
			code, _ := strconv.Atoi(cfg.onSignal)
			c.exit(code)
		}
	}
	return nil
}
func (c *fakeCmd) SetCmdArgs() {}
func (c *fakeCmd) Start() error {
	if c.h.cfg[c.name].has('f') {
		verif.Obs("launchfail %s", c.name)
		c.exited = true
		c.closePipes()
		return errors.New("fake start failure")
	}
	verif.Obs("launch %s", c.name)
	c.alive = true
	c.h.cmds = append(c.h.cmds, c)
	return nil
}
func (c *fakeCmd) Run() error                         { return nil }
func (c *fakeCmd) Wait() error                        { return nil }
func (c *fakeCmd) ExitCode() int                      { return c.code }
func (c *fakeCmd) Pid() int                           { return os.Getpid() }
func (c *fakeCmd) StdoutPipe() (io.ReadCloser, error) { c.out = newFakePipe(); return c.out, nil }
func (c *fakeCmd) StderrPipe() (io.ReadCloser, error) { c.errp = newFakePipe(); return c.errp, nil }
func (c *fakeCmd) StdinPipe() (io.WriteCloser, error) { return nil, errors.New("no stdin") }
func (c *fakeCmd) AttachIo()                          {}
func (c *fakeCmd) SetEnv(env []string)                { c.env = env }
func (c *fakeCmd) SetDir(dir string)                  { c.dir = dir }
func (c *fakeCmd) Output() ([]byte, error)            { return nil, nil }

var _ command.Commander = (*fakeCmd)(nil)

// ---------- harness-controlled kill-timeout context ----------

type fakeCtx struct {
	mu   sync.Mutex
	done chan struct{}
	err  error
}

func (f *fakeCtx) Deadline() (time.Time, bool) { return time.Time{}, false }
func (f *fakeCtx) Done() <-chan struct{}       { return f.done }
func (f *fakeCtx) Err() error                  { f.mu.Lock(); defer f.mu.Unlock(); return f.err }
func (f *fakeCtx) Value(any) any               { return nil }
func (f *fakeCtx) finish(err error) {
	f.mu.Lock()
	defer f.mu.Unlock()
	if f.err == nil {
		f.err = err
		close(f.done)
	}
}

type instCtx struct {
	inst any
	fc   *fakeCtx
}

// ---------- scenario state ----------

type supCfg struct {
	name, policy     string
	max              int
	flags            string
	sdTimeout, sdSig int
	onSignal         string
	deps             string
}

func (c supCfg) has(f byte) bool { return strings.IndexByte(c.flags, f) >= 0 }

type supH struct {
	gran    string
	ordered bool
	order   []string
	cfg     map[string]supCfg
	r       *app.ProjectRunner
	cmds    []*fakeCmd
	stopCtx map[string][]*instCtx // per name: the instances that armed a kill timeout, oldest first, each with its latest context
	cur     *verif.Thread
	dead    bool
	stopLog []string
	// generator bookkeeping
	apiN int
}

func init() { Register("sup", func() Component { return &supH{} }) }

func (h *supH) reset(gran string, ordered bool) {
	*h = supH{gran: gran, ordered: ordered, cfg: map[string]supCfg{}, stopCtx: map[string][]*instCtx{}}
	verif.Reset(true, gran == "fine")
	app.VerifCommander = func(name string, conf *types.ProcessConfig, args []string) command.Commander {
		return &fakeCmd{h: h, name: name, conf: conf}
	}
	app.VerifBackoff = func(name string, cancelled bool) time.Duration {
		if cancelled && h.cur != nil && h.cur.Kind == "proc" {
			return time.Hour
		}
		return 0
	}
	// the kill-timeout context is a field of the process instance: a later stop of the same instance
	// replaces it (every waiter reads the field), another instance of the name has its own
	app.VerifStopCtxOf = func(inst any, name string, c context.Context, f context.CancelFunc) (context.Context, context.CancelFunc) {
		f()
		fc := &fakeCtx{done: make(chan struct{})}
		found := false
		for _, ic := range h.stopCtx[name] {
			if ic.inst == inst {
				ic.fc, found = fc, true
			}
		}
		if !found {
			h.stopCtx[name] = append(h.stopCtx[name], &instCtx{inst: inst, fc: fc})
		}
		return fc, func() { fc.finish(context.Canceled) }
	}
}

func condName(c string) string {
	switch c {
	case "c":
		return types.ProcessConditionCompleted
	case "s":
		return types.ProcessConditionCompletedSuccessfully
	case "h":
		return types.ProcessConditionHealthy
	case "l":
		return types.ProcessConditionLogReady
	}
	return types.ProcessConditionStarted
}

func (h *supH) build() {
	procs := types.Processes{}
	for _, n := range h.order {
		c := h.cfg[n]
		pc := types.ProcessConfig{
			Name: n, ReplicaName: n, Command: "fake " + n, Executable: "fake", Args: []string{n},
			Namespace: "default", Replicas: 1, LaunchTimeout: 5, DependsOn: types.DependsOnConfig{},
			Disabled: c.has('x'),
		}
		if c.has('D') {
			// a background (forking) process: the command is its launcher (component `daemon` only)
			pc.IsDaemon = true
		}
		if c.has('C') {
			pc.ShutDownParams.ShutDownCommand = "true"
		}
		if c.has('v') {
			pc.LivenessProbe = &health.Probe{Exec: &health.ExecProbe{Command: "true"}, InitialDelay: 36000, PeriodSeconds: 36000}
		}
		if c.has('g') {
			// one replica of a replicated process: the process name differs from the replica name
			// (every registry of the runner is keyed by the replica name)
			pc.Name, pc.Replicas = "grp", 2
		}
		pc.RestartPolicy.Restart = c.policy
		pc.RestartPolicy.MaxRestarts = c.max
		pc.RestartPolicy.ExitOnEnd = c.has('e')
		pc.RestartPolicy.ExitOnSkipped = c.has('k')
		pc.ShutDownParams.ShutDownTimeout = c.sdTimeout
		pc.ShutDownParams.Signal = c.sdSig
		if c.has('r') {
			pc.ReadinessProbe = &health.Probe{Exec: &health.ExecProbe{Command: "true"}, InitialDelay: 36000, PeriodSeconds: 36000}
		}
		if c.has('l') {
			pc.ReadyLogLine = "READY"
		}
		if c.has('b') {
			pc.WorkingDir = "/nonexistent-verif-dir"
		}
		if c.deps != "-" {
			for _, d := range strings.Split(c.deps, ",") {
				kc := strings.SplitN(d, ":", 2)
				if len(kc) == 2 {
					pc.DependsOn[kc[0]] = types.ProcessDependency{Condition: condName(kc[1])}
				}
			}
		}
		procs[n] = pc
	}
	prj := &types.Project{Processes: procs, LogLength: 100, ShellConfig: command.DefaultShellConfig()}
	opts := (&app.ProjectOpts{}).WithProject(prj).WithIsTuiOn(true).WithOrderedShutDown(h.ordered)
	r, err := app.NewProjectRunner(opts)
	if err != nil {
		panic(err)
	}
	h.r = r
}

func errClass(err error) string {
	if err == nil {
		return "ok"
	}
	m := err.Error()
	switch {
	case strings.Contains(m, "already running"):
		return "already-running"
	case strings.Contains(m, "is not running"):
		return "not-running"
	case strings.Contains(m, "does not exist"), strings.Contains(m, "no such process"):
		return "no-such"
	}
	return "other"
}

// ---------- canonical view ----------

func (h *supH) threadKeys() ([]*verif.Thread, []string) {
	ts := verif.S.Threads()
	keys := make([]string, len(ts))
	seen := map[string]int{}
	for i, t := range ts {
		b := t.Kind + ":" + t.Key
		seen[b]++
		keys[i] = fmt.Sprintf("%s#%d", b, seen[b])
	}
	return ts, keys
}

func canonObs(o string) string {
	switch {
	case strings.HasPrefix(o, "shutdown:order "):
		// %q of a []string: ["a" "b"]
		s := strings.TrimPrefix(o, "shutdown:order ")
		s = strings.Trim(s, "[]")
		parts := []string{}
		for _, f := range strings.Fields(s) {
			parts = append(parts, strings.Trim(f, `"`))
		}
		return "sdorder " + strings.Join(parts, ",")
	case o == "shutdown:returned":
		return "sdreturned"
	case strings.HasPrefix(o, "run:returned "):
		return "runreturned " + strings.TrimPrefix(o, "run:returned ")
	}
	return o
}

func (h *supH) view() string {
	ts, keys := h.threadKeys()
	en := map[*verif.Thread]bool{}
	for _, t := range verif.S.Enabled() {
		en[t] = true
	}
	ths := []string{}
	for i, t := range ts {
		if t.Done {
			continue
		}
		s := keys[i] + "@" + t.Label
		if en[t] {
			s += "*"
		}
		ths = append(ths, s)
	}
	sort.Strings(ths)
	obs := []string{}
	for _, o := range verif.S.TakeLog() {
		obs = append(obs, canonObs(o))
	}
	sts := []string{}
	for n, v := range h.r.VerifSnapshot() {
		hl := "U"
		if v[3] == types.ProcessHealthReady {
			hl = "R"
		} else if v[3] == types.ProcessHealthNotReady {
			hl = "N"
		}
		sts = append(sts, fmt.Sprintf("%s:%s/%s/%s/%s", n, v[0], v[1], v[2], hl))
	}
	sort.Strings(sts)
	cmds := []string{}
	for _, c := range h.cmds {
		if c.alive {
			cmds = append(cmds, c.name)
		}
	}
	sort.Strings(cmds)
	return "th=" + strings.Join(ths, ",") + " obs=" + strings.Join(obs, ";") + " st=" + strings.Join(sts, ",") +
		" run=" + strings.Join(h.r.VerifRunningNamesNoLock(), ",") + " done=" + strings.Join(h.r.VerifDoneNames(), ",") +
		" cmd=" + strings.Join(cmds, ",") + " pe=" + strconv.Itoa(h.r.VerifExitCode())
}

func (h *supH) settle() string {
	if err := verif.S.Settle(); err != nil {
		h.dead = true
		dump := verif.S.Dump()
		f := fmt.Sprintf("%s/pc-divergence-%d.txt", os.TempDir(), os.Getpid())
		_ = os.WriteFile(f, []byte(dump), 0o644)
		return "DIVERGED " + strings.ReplaceAll(err.Error(), " ", "_") + " dump=" + f
	}
	return ""
}

func (h *supH) firstAlive(name string) *fakeCmd {
	for _, c := range h.cmds {
		if c.alive && c.name == name {
			return c
		}
	}
	return nil
}

// ---------- Exec ----------

func (h *supH) Exec(op string) string {
	w := strings.Fields(op)
	if len(w) == 0 {
		return "bad-op"
	}
	switch w[0] {
	case "sup":
		if len(w) != 3 {
			return "bad-op"
		}
		h.reset(w[1], w[2] == "1")
		return "ok"
	case "proc":
		if len(w) != 9 {
			return "bad-op"
		}
		mx, _ := strconv.Atoi(w[3])
		sdt, _ := strconv.Atoi(w[5])
		sg, _ := strconv.Atoi(w[6])
		h.cfg[w[1]] = supCfg{name: w[1], policy: w[2], max: mx, flags: w[4], sdTimeout: sdt, sdSig: sg, onSignal: w[7], deps: w[8]}
		h.order = append(h.order, w[1])
		return "ok"
	case "deps":
		return "ok"
	case "init":
		h.build()
		return h.view()
	case "end":
		if len(w) != 2 {
			return "bad-op"
		}
		return "ok"
	}
	if h.dead || h.r == nil {
		return "DEAD"
	}
	if w[0] != "s" || len(w) < 2 {
		return "bad-op"
	}
	switch w[1] {
	case "call":
		if len(w) < 4 {
			return "bad-op"
		}
		id := w[2]
		args := w[3:]
		r := h.r
		fn := func() {
			defer func() {
				if e := recover(); e != nil {
					verif.Obs("ret %s panic", id)
				}
			}()
			switch args[0] {
			case "run":
				_ = r.Run()
			case "start":
				verif.Obs("ret %s %s", id, errClass(r.StartProcess(args[1])))
			case "stop":
				verif.Obs("ret %s %s", id, errClass(r.StopProcess(args[1])))
			case "restart":
				verif.Obs("ret %s %s", id, errClass(r.RestartProcess(args[1])))
			case "shutdown":
				verif.Obs("ret %s %s", id, errClass(r.ShutDownProject()))
			case "state":
				st, err := r.GetProcessState(args[1])
				if err != nil {
					verif.Obs("ret %s %s", id, errClass(err))
				} else {
					verif.Obs("ret %s %s", id, st.Status)
				}
			}
		}
		if err := verif.S.Go("api", id, fn); err != nil {
			h.dead = true
			return "DIVERGED " + strings.ReplaceAll(err.Error(), " ", "_")
		}
	case "run":
		if len(w) != 3 {
			return "bad-op"
		}
		ts, keys := h.threadKeys()
		var t *verif.Thread
		for i, k := range keys {
			if k == w[2] && !ts[i].Done {
				t = ts[i]
			}
		}
		if t == nil {
			return "no-such-thread " + w[2]
		}
		isEn := false
		for _, e := range verif.S.Enabled() {
			if e == t {
				isEn = true
			}
		}
		if !isEn {
			return "not-enabled " + w[2]
		}
		h.cur = t
		if err := verif.S.Step(t); err != nil {
			_ = h.settle()
			h.dead = true
			return "DIVERGED " + strings.ReplaceAll(err.Error(), " ", "_")
		}
		h.cur = nil
	case "exit":
		if len(w) != 4 {
			return "bad-op"
		}
		code, _ := strconv.Atoi(w[3])
		if c := h.firstAlive(w[2]); c != nil {
			c.exit(code)
		}
	case "line":
		if len(w) != 4 {
			return "bad-op"
		}
		if c := h.firstAlive(w[2]); c != nil && c.out != nil {
			if w[3] == "1" {
				c.out.feed([]byte("service READY now\n"))
			} else {
				c.out.feed([]byte("some output\n"))
			}
		}
	case "probe":
		if len(w) != 4 {
			return "bad-op"
		}
		if w[3] == "ok" {
			h.r.VerifProbeResult(w[2], "ready", 0, "ok")
		} else {
			h.r.VerifProbeResult(w[2], "ready", 1, "failed")
		}
	case "probefatal":
		if len(w) != 4 {
			return "bad-op"
		}
		name := w[3]
		r := h.r
		if !r.VerifHasRunning(name) {
			break
		}
		if err := verif.S.Go("probe", w[2], func() { r.VerifProbeResult(name, "ready", 3, "failed") }); err != nil {
			h.dead = true
			return "DIVERGED " + strings.ReplaceAll(err.Error(), " ", "_")
		}
	case "killto":
		if len(w) != 3 {
			return "bad-op"
		}
		// the timer of the oldest instance of that name with a pending kill timeout fires (the model's
		// `killTimeout` picks the first instance of the name whose context is armed)
		for _, ic := range h.stopCtx[w[2]] {
			if ic.fc.Err() == nil {
				ic.fc.finish(context.DeadlineExceeded)
				break
			}
		}
	default:
		return "bad-op"
	}
	if d := h.settle(); d != "" {
		return d
	}
	return h.view()
}

// ---------- generator ----------

func (h *supH) aliveNames() []string {
	l := []string{}
	for _, c := range h.cmds {
		if c.alive {
			l = append(l, c.name)
		}
	}
	sort.Strings(l)
	return l
}

func (h *supH) armedCtxs() []string {
	l := []string{}
	for n, ics := range h.stopCtx {
		for _, ic := range ics {
			if ic.fc.Err() == nil {
				l = append(l, n)
				break
			}
		}
	}
	sort.Strings(l)
	return l
}

func (h *supH) killArmed(n string) bool {
	for _, x := range h.armedCtxs() {
		if x == n {
			return true
		}
	}
	return false
}

// shutdownWaiting: some thread is parked inside ShutDownProject waiting for its waiters
func (h *supH) shutdownWaiting() bool {
	for _, t := range verif.S.Threads() {
		if !t.Done && t.Label == "shutdown:wg" {
			return true
		}
	}
	return false
}

func (h *supH) enabledKeys() []string {
	ts, keys := h.threadKeys()
	en := map[*verif.Thread]bool{}
	for _, t := range verif.S.Enabled() {
		en[t] = true
	}
	l := []string{}
	for i, t := range ts {
		if en[t] {
			l = append(l, keys[i])
		}
	}
	sort.Strings(l)
	return l
}

type genProc struct {
	name, policy, flags, onSignal string
	max, sdTimeout, sdSig         int
	deps                          []string
	codes                         []int
}

func genScenario(r *rand.Rand, maxProcs int) (bool, []genProc) {
	n := 1 + r.Intn(maxProcs)
	names := []string{"a", "b", "c", "d", "e", "f"}[:n]
	procs := make([]genProc, n)
	policies := []string{"no", "no", "always", "on_failure", "exit_on_failure"}
	for i := range procs {
		p := genProc{name: names[i], policy: policies[r.Intn(len(policies))], onSignal: []string{"0", "143", "ign", "0"}[r.Intn(4)]}
		p.max = []int{0, 1, 2, 3}[r.Intn(4)]
		p.sdTimeout = []int{0, 0, 0, 5}[r.Intn(4)]
		p.sdSig = []int{0, 15, 2, 9, 40}[r.Intn(5)]
		if p.onSignal == "ign" && p.sdTimeout == 0 && r.Intn(3) > 0 {
			p.sdTimeout = 5
		}
		fl := ""
		if r.Intn(8) == 0 {
			fl += "e"
		}
		if r.Intn(8) == 0 {
			fl += "k"
		}
		switch r.Intn(6) {
		case 0:
			fl += "r"
		case 1:
			fl += "l"
		}
		if r.Intn(12) == 0 {
			fl += "b"
		}
		if r.Intn(12) == 0 {
			fl += "f"
		}
		if r.Intn(15) == 0 {
			fl += "x"
		}
		if r.Intn(4) == 0 {
			fl += "g"
		}
		p.flags = fl
		for j := 0; j < i; j++ {
			if r.Intn(3) == 0 {
				c := []string{"c", "s", "h", "l", "t"}[r.Intn(5)]
				// healthy / log-ready dependencies need the matching facility on the dependency
				// (the loader rejects log-ready without a ready line; healthy without probe is only logged)
				if c == "l" && !strings.Contains(procs[j].flags, "l") {
					c = "c"
				}
				if c == "h" && !strings.Contains(procs[j].flags, "r") && r.Intn(4) > 0 {
					c = "s"
				}
				p.deps = append(p.deps, names[j]+":"+c)
			}
		}
		for k := 0; k < 4; k++ {
			p.codes = append(p.codes, []int{0, 0, 1, 3, 0, -1}[r.Intn(6)])
		}
		procs[i] = p
	}
	return r.Intn(3) == 0, procs
}

// drain runs every enabled thread (lowest key first) until none is enabled
func (h *supH) drain(emit func(string)) {
	for i := 0; i < 400 && !h.dead; i++ {
		en := h.enabledKeys()
		if len(en) == 0 {
			return
		}
		emit("s run " + en[0])
	}
}

// directed fault-sequence scenarios: every dependency condition x every way the dependency can end,
// with a dependent and a grand-dependent (process_completed_successfully on the dependent)
func (h *supH) directed(emit func(string)) {
	conds := []string{"c", "s", "h", "l", "t"}
	modes := []string{"exit3", "exitneg", "exit0", "ready-exit0", "stop-running", "stop-pending", "startfail", "baddir", "restart-running", "shutdown", "fail-backoff-stop"}
	for _, gran := range []string{"coarse"} {
		for _, cond := range conds {
			for _, mode := range modes {
				aflags := ""
				if cond == "l" {
					aflags += "l"
				}
				if cond == "h" {
					aflags += "r"
				}
				if mode == "startfail" {
					aflags += "f"
				}
				if mode == "baddir" {
					aflags += "b"
				}
				if aflags == "" {
					aflags = "-"
				}
				adeps := "-"
				emit(fmt.Sprintf("sup %s 0", gran))
				if mode == "stop-pending" {
					emit("proc z no 0 - 0 0 0 -")
					adeps = "z:c"
				}
				apol := "no"
				if mode == "fail-backoff-stop" {
					apol = "on_failure"
				}
				emit(fmt.Sprintf("proc a %s 0 %s 0 0 0 %s", apol, aflags, adeps))
				emit(fmt.Sprintf("proc b no 0 - 0 0 0 a:%s", cond))
				emit("proc c no 0 - 0 0 0 b:s")
				if adeps != "-" {
					emit("deps a " + adeps)
				}
				emit("deps b a:" + cond)
				emit("deps c b:s")
				emit("init")
				emit("s call 0 run")
				h.drain(emit)
				switch mode {
				case "exit3":
					emit("s exit a 3")
				case "exitneg":
					// killed by a signal from outside: Go reports exit code -1
					emit("s exit a -1")
				case "exit0":
					emit("s exit a 0")
				case "ready-exit0":
					if cond == "l" {
						emit("s line a 1")
					}
					if cond == "h" {
						emit("s probe a ok")
					}
					h.drain(emit)
					emit("s exit a 0")
				case "stop-running", "stop-pending":
					emit("s call 1 stop a")
				case "restart-running":
					emit("s call 1 restart a")
				case "shutdown":
					emit("s call 1 shutdown")
				case "fail-backoff-stop":
					// the command fails, the process waits to be restarted, and is stopped during that wait
					emit("s exit a 3")
					emit("s run proc:a#1")
					emit("s call 1 stop a")
					for i := 0; i < 20 && !h.dead; i++ {
						found := false
						for _, k := range h.enabledKeys() {
							if strings.HasPrefix(k, "api:1#") {
								emit("s run " + k)
								found = true
								break
							}
						}
						if !found {
							break
						}
					}
				}
				h.drain(emit)
				// let everything that is still alive finish
				for i := 0; i < 8 && !h.dead; i++ {
					al := h.aliveNames()
					if len(al) == 0 {
						break
					}
					emit(fmt.Sprintf("s exit %s 0", al[0]))
					h.drain(emit)
				}
				if len(h.aliveNames()) == 0 && len(h.enabledKeys()) == 0 {
					emit("end quiescent")
				} else {
					emit("end limit")
				}
			}
		}
	}
}

// directedExit: who decides the project exit code. `a` ends the project (exit_on_end) with code
// 0 or 3 while `b` - carrying exit_on_end, exit_on_failure or nothing - is still running and is
// terminated by the shutdown with a code of its own (143, or -1 after the kill timeout).
func (h *supH) directedExit(emit func(string)) {
	for _, code := range []int{0, 3} {
		for _, victim := range []string{"e", "xf", "-"} {
			for _, onsig := range []string{"143", "0"} {
				bpol, bflags := "no", "-"
				switch victim {
				case "e":
					bflags = "e"
				case "xf":
					bpol = "exit_on_failure"
				}
				emit("sup coarse 0")
				emit("proc a no 0 e 0 0 0 -")
				emit(fmt.Sprintf("proc b %s 0 %s 0 0 %s -", bpol, bflags, onsig))
				emit("proc c no 0 - 0 0 0 -")
				emit("init")
				emit("s call 0 run")
				h.drain(emit)
				emit(fmt.Sprintf("s exit a %d", code))
				h.drain(emit)
				for i := 0; i < 8 && !h.dead; i++ {
					al := h.aliveNames()
					if len(al) == 0 {
						break
					}
					emit(fmt.Sprintf("s exit %s 0", al[0]))
					h.drain(emit)
				}
				if len(h.aliveNames()) == 0 && len(h.enabledKeys()) == 0 {
					emit("end quiescent")
				} else {
					emit("end limit")
				}
			}
		}
	}
}

// directedStopThenShutdown: a shutdown that arrives while a process is already being stopped by
// an earlier request and is still alive (it ignores the signal; the kill timer of the first stop
// is armed). The shutdown may return only after the command is gone.
func (h *supH) directedStopThenShutdown(emit func(string)) {
	for _, first := range []string{"stop", "restart"} {
		for _, ordered := range []int{0, 1} {
			emit(fmt.Sprintf("sup coarse %d", ordered))
			emit("proc a no 0 - 40 0 ign -")
			emit("proc b no 0 - 0 0 0 -")
			emit("init")
			emit("s call 0 run")
			h.drain(emit)
			emit(fmt.Sprintf("s call 1 %s a", first))
			h.drain(emit)
			emit("s call 2 shutdown")
			h.drain(emit)
			emit("s killto a")
			h.drain(emit)
			for i := 0; i < 8 && !h.dead; i++ {
				al := h.aliveNames()
				if len(al) == 0 {
					break
				}
				emit(fmt.Sprintf("s exit %s 0", al[0]))
				h.drain(emit)
			}
			if len(h.aliveNames()) == 0 && len(h.enabledKeys()) == 0 {
				emit("end quiescent")
			} else {
				emit("end limit")
			}
		}
	}
}

// directedRestartSlowStopper: a restart (or a stop followed by a start) of a process that ignores the
// stop signal and has a shutdown timeout: the stop returns only when the kill timeout has fired, so the
// new command is launched only after the previous one is gone.
func (h *supH) directedRestartSlowStopper(emit func(string)) {
	for _, pol := range []string{"no", "always"} {
		for _, req := range []string{"restart", "stopstart"} {
			emit("sup coarse 0")
			emit(fmt.Sprintf("proc a %s 0 - 40 0 ign -", pol))
			emit("proc b no 0 - 0 0 0 -")
			emit("init")
			emit("s call 0 run")
			h.drain(emit)
			if req == "restart" {
				emit("s call 1 restart a")
				h.drain(emit)
			} else {
				emit("s call 1 stop a")
				h.drain(emit)
				if len(h.aliveNames()) == 2 && !h.killArmed("a") {
					// the stop has returned although the command is alive: the start is accepted or not, either way observed
					emit("s call 3 start a")
					h.drain(emit)
				}
			}
			emit("s call 2 state a")
			h.drain(emit)
			if h.killArmed("a") {
				emit("s killto a")
				h.drain(emit)
			}
			if req == "stopstart" {
				emit("s call 4 start a")
				h.drain(emit)
			}
			emit("s call 9 shutdown")
			h.drain(emit)
			for i := 0; i < 8 && !h.dead; i++ {
				if h.killArmed("a") {
					emit("s killto a")
					h.drain(emit)
					continue
				}
				al := h.aliveNames()
				if len(al) == 0 {
					break
				}
				emit(fmt.Sprintf("s exit %s 0", al[0]))
				h.drain(emit)
			}
			if len(h.aliveNames()) == 0 && len(h.enabledKeys()) == 0 {
				emit("end quiescent")
			} else {
				emit("end limit")
			}
		}
	}
}

// directedRestartedDependency: the dependency's first instance ended badly (failed, or was terminated
// by a stop / a restart), it is started again, and while the new instance is still running a dependent
// (process_completed / process_completed_successfully) is started by a request: it must not be launched
// on the strength of the instance that ended badly.
func (h *supH) directedRestartedDependency(emit func(string)) {
	for _, cond := range []string{"s", "c"} {
		for _, how := range []string{"fail-start", "stop-start", "restart", "restarting"} {
			emit("sup coarse 0")
			if how == "restarting" {
				emit("proc a always 0 - 0 0 143 -")
			} else {
				emit("proc a no 0 - 0 0 143 -")
			}
			emit(fmt.Sprintf("proc b no 0 x 0 0 0 a:%s", cond))
			emit("proc k no 0 - 0 0 0 -")
			emit("deps b a:" + cond)
			emit("init")
			emit("s call 0 run")
			h.drain(emit)
			switch how {
			case "fail-start":
				emit("s exit a 3")
				h.drain(emit)
				emit("s call 1 start a")
				h.drain(emit)
			case "stop-start":
				emit("s call 1 stop a")
				h.drain(emit)
				emit("s call 2 start a")
				h.drain(emit)
			case "restart":
				emit("s call 1 restart a")
				h.drain(emit)
			case "restarting":
				// the dependency is stopped, started again, its new command exits 0 and - policy always -
				// it sits in the back-off before the next launch: it has not finished
				emit("s call 1 stop a")
				h.drain(emit)
				emit("s call 2 start a")
				h.drain(emit)
				emit("s exit a 0")
				h.drainExcept(emit, "backoff")
			}
			emit("s call 3 start b")
			if how == "restarting" {
				h.drainExcept(emit, "backoff")
				emit("s call 4 state b")
				h.drainExcept(emit, "backoff")
			}
			h.drain(emit)
			emit("s call 4 state b")
			h.drain(emit)
			emit("s exit a 0")
			h.drain(emit)
			emit("s call 9 shutdown")
			h.drain(emit)
			for i := 0; i < 8 && !h.dead; i++ {
				al := h.aliveNames()
				if len(al) == 0 {
					break
				}
				emit(fmt.Sprintf("s exit %s 0", al[0]))
				h.drain(emit)
			}
			if len(h.aliveNames()) == 0 && len(h.enabledKeys()) == 0 {
				emit("end quiescent")
			} else {
				emit("end limit")
			}
		}
	}
}

// directedLateLookup: a dependency that has already been skipped (or failed) when the dependent gets
// round to looking it up — the dependent waited for another, slower dependency first (Go's map order
// decides; the scenario is repeated). The dependent must still be skipped.
func (h *supH) directedLateLookup(emit func(string)) {
	for rep := 0; rep < 6; rep++ {
		for _, mode := range []string{"skipped", "failed"} {
			emit("sup coarse 0")
			emit("proc a no 0 - 0 0 0 -")
			if mode == "skipped" {
				emit("proc b no 0 - 0 0 0 a:s")
			} else {
				emit("proc b no 0 - 0 0 0 -")
			}
			emit("proc x no 0 - 0 0 0 -")
			emit("proc c no 0 - 0 0 0 x:c,b:s")
			emit("proc d no 0 - 0 0 0 c:s")
			if mode == "skipped" {
				emit("deps b a:s")
			}
			emit("deps c x:c,b:s")
			emit("deps d c:s")
			emit("init")
			emit("s call 0 run")
			h.drain(emit)
			if mode == "skipped" {
				emit("s exit a 3")
			} else {
				emit("s exit b 2")
			}
			h.drain(emit)
			emit("s exit x 0")
			h.drain(emit)
			for i := 0; i < 8 && !h.dead; i++ {
				al := h.aliveNames()
				if len(al) == 0 {
					break
				}
				emit(fmt.Sprintf("s exit %s 0", al[0]))
				h.drain(emit)
			}
			if len(h.aliveNames()) == 0 && len(h.enabledKeys()) == 0 {
				emit("end quiescent")
			} else {
				emit("end limit")
			}
		}
	}
}

// directedReplicatedDependent: ordered shutdown where the dependents of `d` are two replicas of one
// replicated process (same process name, different replica names): `d` may be signalled only when
// both are gone. One of them ignores the signal and dies only at its kill timeout.
func (h *supH) directedReplicatedDependent(emit func(string)) {
	for rep := 0; rep < 3; rep++ {
		for _, slow := range []string{"x", "y"} {
			emit("sup coarse 1")
			emit("proc d no 0 - 0 0 0 -")
			for _, n := range []string{"x", "y"} {
				if n == slow {
					emit(fmt.Sprintf("proc %s no 0 g 40 0 ign d:t", n))
				} else {
					emit(fmt.Sprintf("proc %s no 0 g 0 0 0 d:t", n))
				}
			}
			emit("deps x d:t")
			emit("deps y d:t")
			emit("init")
			emit("s call 0 run")
			h.drain(emit)
			emit("s call 1 shutdown")
			h.drain(emit)
			for i := 0; i < 8 && !h.dead; i++ {
				if h.killArmed(slow) {
					emit("s killto " + slow)
					h.drain(emit)
					continue
				}
				al := h.aliveNames()
				if len(al) == 0 {
					break
				}
				emit(fmt.Sprintf("s exit %s 0", al[0]))
				h.drain(emit)
			}
			if len(h.aliveNames()) == 0 && len(h.enabledKeys()) == 0 {
				emit("end quiescent")
			} else {
				emit("end limit")
			}
		}
	}
}

// directedCompletedDependentShutdown: ordered shutdown where the dependent waited for its dependency
// to *complete* (process_completed / process_completed_successfully): `d` ends, `a` is launched, `d` is
// started again by a request; both are running when the shutdown begins and `a` is slow to die, so
// `d` may be signalled only after `a` has gone.
func (h *supH) directedCompletedDependentShutdown(emit func(string)) {
	for _, cond := range []string{"c", "s"} {
		emit("sup coarse 1")
		emit("proc d no 0 - 0 0 0 -")
		emit(fmt.Sprintf("proc a no 0 - 40 0 ign d:%s", cond))
		emit("deps a d:" + cond)
		emit("init")
		emit("s call 0 run")
		h.drain(emit)
		emit("s exit d 0")
		h.drain(emit)
		emit("s call 1 start d")
		h.drain(emit)
		emit("s call 2 shutdown")
		h.drain(emit)
		for i := 0; i < 8 && !h.dead; i++ {
			if h.killArmed("a") {
				emit("s killto a")
				h.drain(emit)
				continue
			}
			al := h.aliveNames()
			if len(al) == 0 {
				break
			}
			emit(fmt.Sprintf("s exit %s 0", al[0]))
			h.drain(emit)
		}
		if len(h.aliveNames()) == 0 && len(h.enabledKeys()) == 0 {
			emit("end quiescent")
		} else {
			emit("end limit")
		}
	}
}

// directedStoppingDependentShutdown: ordered shutdown while a dependent of `d` is already being
// stopped by an earlier request and is still alive (it ignores the signal, its kill timer is armed):
// `d` may be signalled only after that dependent has gone.
func (h *supH) directedStoppingDependentShutdown(emit func(string)) {
	for _, first := range []string{"stop", "restart"} {
		emit("sup coarse 1")
		emit("proc d no 0 - 0 0 0 -")
		emit("proc a no 0 - 40 0 ign d:t")
		emit("deps a d:t")
		emit("init")
		emit("s call 0 run")
		h.drain(emit)
		emit(fmt.Sprintf("s call 1 %s a", first))
		h.drain(emit)
		emit("s call 2 shutdown")
		h.drain(emit)
		for i := 0; i < 8 && !h.dead; i++ {
			if h.killArmed("a") {
				emit("s killto a")
				h.drain(emit)
				continue
			}
			al := h.aliveNames()
			if len(al) == 0 {
				break
			}
			emit(fmt.Sprintf("s exit %s 0", al[0]))
			h.drain(emit)
		}
		if len(h.aliveNames()) == 0 && len(h.enabledKeys()) == 0 {
			emit("end quiescent")
		} else {
			emit("end limit")
		}
	}
}

// directedStartOnRegistered: a start request on a process whose instance is registered but has no
// command up at that moment - it waits out its back-off, or it has been signalled and is slow to die.
// The request must fail and change nothing.
func (h *supH) directedStartOnRegistered(emit func(string)) {
	for _, kind := range []string{"backoff", "terminating"} {
		emit("sup coarse 0")
		if kind == "backoff" {
			emit("proc a always 0 - 0 0 0 -")
		} else {
			emit("proc a no 0 - 40 0 ign -")
		}
		emit("proc b no 0 - 0 0 0 -")
		emit("init")
		emit("s call 0 run")
		h.drain(emit)
		if kind == "backoff" {
			emit("s exit a 1")
			h.drain(emit)
		} else {
			emit("s call 1 stop a")
			h.drain(emit)
		}
		emit("s call 2 start a")
		h.drain(emit)
		emit("s call 3 shutdown")
		h.drain(emit)
		for i := 0; i < 8 && !h.dead; i++ {
			if h.killArmed("a") {
				emit("s killto a")
				h.drain(emit)
				continue
			}
			al := h.aliveNames()
			if len(al) == 0 {
				break
			}
			emit(fmt.Sprintf("s exit %s 0", al[0]))
			h.drain(emit)
		}
		if len(h.aliveNames()) == 0 && len(h.enabledKeys()) == 0 {
			emit("end quiescent")
		} else {
			emit("end limit")
		}
	}
}

// directedStaleReadyLine: the dependency printed its ready line in a first run and completed; it is
// started again and that run ends without the line; a dependent waiting for process_log_ready is
// started afterwards (or is started while the second run is still going): it must be skipped.
func (h *supH) directedStaleReadyLine(emit func(string)) {
	for _, late := range []bool{true, false} {
		emit("sup coarse 0")
		emit("proc d no 0 l 0 0 0 -")
		emit("proc a no 0 x 0 0 0 d:l")
		emit("deps a d:l")
		emit("init")
		emit("s call 0 run")
		h.drain(emit)
		emit("s line d 1")
		h.drain(emit)
		emit("s exit d 0")
		h.drain(emit)
		emit("s call 1 start d")
		h.drain(emit)
		if !late {
			emit("s call 2 start a")
			h.drain(emit)
		}
		emit("s exit d 0")
		h.drain(emit)
		if late {
			emit("s call 2 start a")
			h.drain(emit)
		}
		for i := 0; i < 6 && !h.dead; i++ {
			al := h.aliveNames()
			if len(al) == 0 {
				break
			}
			emit(fmt.Sprintf("s exit %s 0", al[0]))
			h.drain(emit)
		}
		if len(h.aliveNames()) == 0 && len(h.enabledKeys()) == 0 {
			emit("end quiescent")
		} else {
			emit("end limit")
		}
	}
}

// directedRestartNotRunning: a restart request on a process that is registered but has no command at
// the moment — it waits for a dependency, or it sits in the back-off before a relaunch. The instance
// that was replaced must not launch anything later (when the dependency ends / the back-off elapses).
func (h *supH) directedRestartNotRunning(emit func(string)) {
	for _, when := range []string{"pending", "backoff"} {
		emit("sup coarse 0")
		if when == "pending" {
			emit("proc d no 0 - 0 0 0 -")
			emit("proc a no 0 - 0 0 0 d:c")
			emit("deps a d:c")
		} else {
			emit("proc d no 0 - 0 0 0 -")
			emit("proc a always 0 - 0 0 0 -")
		}
		emit("init")
		emit("s call 0 run")
		h.drain(emit)
		if when == "backoff" {
			// a's command exits: the goroutine decides to restart and parks in the back-off
			emit("s exit a 1")
			h.drainExcept(emit, "backoff")
		}
		emit("s call 1 restart a")
		h.drainExcept(emit, "backoff")
		h.drain(emit)
		emit("s exit d 0")
		h.drain(emit)
		emit("s call 2 state a")
		h.drain(emit)
		emit("s call 9 shutdown")
		h.drain(emit)
		for i := 0; i < 8 && !h.dead; i++ {
			al := h.aliveNames()
			if len(al) == 0 {
				break
			}
			emit(fmt.Sprintf("s exit %s 0", al[0]))
			h.drain(emit)
		}
		if len(h.aliveNames()) == 0 && len(h.enabledKeys()) == 0 {
			emit("end quiescent")
		} else {
			emit("end limit")
		}
	}
}

// drainExcept runs every enabled thread except those parked at the given label
func (h *supH) drainExcept(emit func(string), label string) {
	for i := 0; i < 400 && !h.dead; i++ {
		ts, keys := h.threadKeys()
		en := map[*verif.Thread]bool{}
		for _, t := range verif.S.Enabled() {
			en[t] = true
		}
		pick := ""
		cand := []string{}
		for j, t := range ts {
			if en[t] && t.Label != label {
				cand = append(cand, keys[j])
			}
		}
		sort.Strings(cand)
		if len(cand) > 0 {
			pick = cand[0]
		}
		if pick == "" {
			return
		}
		emit("s run " + pick)
	}
}

// directedManual: start / stop / restart requests on a running, a finished and an unknown process,
// for a plain process and for a replica of a replicated one (name differs from the replica name).
func (h *supH) directedManual(emit func(string)) {
	for _, fl := range []string{"-", "g"} {
		for _, pol := range []string{"no", "always"} {
			for _, req := range []string{"start a", "restart a", "stop a", "start nosuch", "stop nosuch", "restart nosuch"} {
				for _, when := range []string{"running", "finished"} {
					emit("sup coarse 0")
					emit(fmt.Sprintf("proc a %s 0 %s 0 0 143 -", pol, fl))
					emit("proc b no 0 - 0 0 0 -")
					emit("init")
					emit("s call 0 run")
					h.drain(emit)
					if when == "finished" {
						emit("s call 5 stop a")
						h.drain(emit)
					}
					emit("s call 1 " + req)
					h.drain(emit)
					emit("s call 2 state a")
					h.drain(emit)
					emit("s call 9 shutdown")
					h.drain(emit)
					for i := 0; i < 8 && !h.dead; i++ {
						al := h.aliveNames()
						if len(al) == 0 {
							break
						}
						emit(fmt.Sprintf("s exit %s 0", al[0]))
						h.drain(emit)
					}
					if len(h.aliveNames()) == 0 && len(h.enabledKeys()) == 0 {
						emit("end quiescent")
					} else {
						emit("end limit")
					}
				}
			}
		}
	}
}

// directedProbeFatal: a fatal readiness failure stops and relaunches the process; probe results
// that arrive after the stop and before the probers are started again must not be applied.
func (h *supH) directedProbeFatal(emit func(string)) {
	runKey := func(prefix string, max int) {
		for i := 0; i < max && !h.dead; i++ {
			found := false
			for _, k := range h.enabledKeys() {
				if strings.HasPrefix(k, prefix) {
					emit("s run " + k)
					found = true
					break
				}
			}
			if !found {
				return
			}
		}
	}
	for _, pol := range []string{"always", "on_failure", "no"} {
		for _, first := range []string{"ok", "none"} {
			emit("sup coarse 0")
			emit(fmt.Sprintf("proc a %s 0 r 0 0 143 -", pol))
			emit("proc b no 0 - 0 0 0 a:h")
			emit("deps b a:h")
			emit("init")
			emit("s call 0 run")
			h.drain(emit)
			if first == "ok" {
				emit("s probe a ok")
				h.drain(emit)
			}
			emit("s probefatal 100 a")
			runKey("probe:100#", 20)
			// the process goroutine: notices the exit and (policy permitting) launches again
			for i := 0; i < 10 && !h.dead; i++ {
				alive := false
				for _, n := range h.aliveNames() {
					if n == "a" {
						alive = true
					}
				}
				if alive {
					break
				}
				runKey("proc:a#", 1)
			}
			emit("s probe a fail")
			emit("s probe a ok")
			h.drain(emit)
			emit("s probe a ok")
			emit("s call 9 shutdown")
			h.drain(emit)
			for i := 0; i < 8 && !h.dead; i++ {
				al := h.aliveNames()
				if len(al) == 0 {
					break
				}
				emit(fmt.Sprintf("s exit %s 0", al[0]))
				h.drain(emit)
			}
			if len(h.aliveNames()) == 0 && len(h.enabledKeys()) == 0 {
				emit("end quiescent")
			} else {
				emit("end limit")
			}
		}
	}
}

// directedShutdownCoverage: a shutdown (ordered and unordered) must cover every running process,
// also one that is disabled in the configuration and was started by a request; and, ordered, a
// process is stopped only after each of its dependents is gone - also when another dependent that
// sits "in between" (triangle: top -> mid -> base, top -> base) ends by itself during the shutdown.
func (h *supH) directedShutdownCoverage(emit func(string)) {
	finish := func() {
		for i := 0; i < 10 && !h.dead; i++ {
			al := h.aliveNames()
			if len(al) == 0 {
				break
			}
			emit(fmt.Sprintf("s exit %s 0", al[0]))
			h.drain(emit)
		}
		if len(h.aliveNames()) == 0 && len(h.enabledKeys()) == 0 {
			emit("end quiescent")
		} else {
			emit("end limit")
		}
	}
	for _, ordered := range []int{0, 1} {
		emit(fmt.Sprintf("sup coarse %d", ordered))
		emit("proc a no 0 x 0 0 143 -")
		emit("proc b no 0 - 0 0 143 -")
		emit("init")
		emit("s call 0 run")
		h.drain(emit)
		emit("s call 1 start a")
		h.drain(emit)
		emit("s call 2 shutdown")
		h.drain(emit)
		finish()
	}
	for _, midEnds := range []bool{true, false} {
		emit("sup coarse 1")
		emit("proc base no 0 - 0 0 143 -")
		emit("proc mid no 0 - 0 0 143 base:t")
		emit("proc top no 0 - 40 0 ign mid:t,base:t")
		emit("deps mid base:t")
		emit("deps top mid:t,base:t")
		emit("init")
		emit("s call 0 run")
		h.drain(emit)
		emit("s call 1 shutdown")
		// everything that can run: top is signalled and ignores it (kill timer armed), mid and base wait
		h.drain(emit)
		if midEnds {
			emit("s exit mid 0")
			h.drain(emit)
		}
		emit("s killto top")
		h.drain(emit)
		finish()
	}
}

func (h *supH) Gen(r *rand.Rand, tier string, emit func(string)) {
	h.directed(emit)
	h.directedShutdownCoverage(emit)
	h.directedProbeFatal(emit)
	h.directedManual(emit)
	h.directedRestartSlowStopper(emit)
	h.directedRestartedDependency(emit)
	h.directedLateLookup(emit)
	h.directedReplicatedDependent(emit)
	h.directedCompletedDependentShutdown(emit)
	h.directedStoppingDependentShutdown(emit)
	h.directedStartOnRegistered(emit)
	h.directedStaleReadyLine(emit)
	h.directedRestartNotRunning(emit)
	h.directedExit(emit)
	h.directedStopThenShutdown(emit)
	scen, maxProcs, maxSteps := 120, 4, 120
	if tier == "thorough" {
		scen, maxProcs, maxSteps = 1500, 5, 200
	}
	for sc := 0; sc < scen; sc++ {
		gran := "coarse"
		if sc%3 == 2 {
			gran = "fine"
		}
		ordered, procs := genScenario(r, maxProcs)
		h.runScenario(r, gran, ordered, procs, maxSteps, emit)
	}
}

func (h *supH) runScenario(r *rand.Rand, gran string, ordered bool, procs []genProc, maxSteps int, emit func(string)) {
	o := "0"
	if ordered {
		o = "1"
	}
	emit(fmt.Sprintf("sup %s %s", gran, o))
	names := []string{}
	for _, p := range procs {
		fl := p.flags
		if fl == "" {
			fl = "-"
		}
		deps := "-"
		if len(p.deps) > 0 {
			deps = strings.Join(p.deps, ",")
		}
		emit(fmt.Sprintf("proc %s %s %d %s %d %d %s %s", p.name, p.policy, p.max, fl, p.sdTimeout, p.sdSig, p.onSignal, deps))
		names = append(names, p.name)
	}
	for _, p := range procs {
		if len(p.deps) > 0 {
			emit(fmt.Sprintf("deps %s %s", p.name, strings.Join(p.deps, ",")))
		}
	}
	emit("init")
	emit("s call 0 run")
	emit("s run api:0#1") // Run() initialises the registries before anything else happens
	apiBudget := r.Intn(4)
	codeIdx := map[string]int{}
	byName := map[string]genProc{}
	for _, p := range procs {
		byName[p.name] = p
	}
	probeID := 100
	reason := "limit"
	for step := 0; step < maxSteps && !h.dead; step++ {
		type cand struct {
			op string
			w  int
		}
		cands := []cand{}
		for _, k := range h.enabledKeys() {
			cands = append(cands, cand{"s run " + k, 10})
		}
		for _, n := range h.aliveNames() {
			p := byName[n]
			code := p.codes[codeIdx[n]%len(p.codes)]
			cands = append(cands, cand{fmt.Sprintf("s exit %s %d", n, code), 3})
			if strings.Contains(p.flags, "l") {
				cands = append(cands, cand{fmt.Sprintf("s line %s 1", n), 3}, cand{fmt.Sprintf("s line %s 0", n), 1})
			}
			if strings.Contains(p.flags, "r") {
				cands = append(cands, cand{fmt.Sprintf("s probe %s ok", n), 3}, cand{fmt.Sprintf("s probe %s fail", n), 1},
					cand{fmt.Sprintf("s probefatal %d %s", probeID, n), 1})
			}
		}
		for _, n := range h.armedCtxs() {
			cands = append(cands, cand{"s killto " + n, 2})
		}
		if apiBudget > 0 {
			tgt := append(append([]string{}, names...), "zz")[r.Intn(len(names)+1)]
			ops := []string{"start " + tgt, "stop " + tgt, "restart " + tgt, "state " + tgt, "shutdown"}
			cands = append(cands, cand{fmt.Sprintf("s call %d %s", h.apiN+1, ops[r.Intn(len(ops))]), 2})
		}
		if len(h.enabledKeys()) == 0 && len(h.aliveNames()) > 0 && len(h.armedCtxs()) == 0 && h.shutdownWaiting() && r.Intn(2) == 0 {
			reason = "stalled"
			break
		}
		if len(cands) == 0 || (len(h.enabledKeys()) == 0 && len(h.aliveNames()) == 0 && len(h.armedCtxs()) == 0 && (apiBudget == 0 || r.Intn(2) == 0)) {
			reason = "quiescent"
			break
		}
		tot := 0
		for _, c := range cands {
			tot += c.w
		}
		x := r.Intn(tot)
		var pick string
		for _, c := range cands {
			if x < c.w {
				pick = c.op
				break
			}
			x -= c.w
		}
		f := strings.Fields(pick)
		switch f[1] {
		case "exit":
			codeIdx[f[2]]++
		case "call":
			h.apiN++
			apiBudget--
		case "probefatal":
			probeID++
		}
		emit(pick)
	}
	emit("end " + reason)
}
