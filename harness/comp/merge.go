package comp

import (
	"fmt"
	"math/rand"
	"os"
	"path/filepath"
	"sort"
	"strconv"
	"strings"

	"github.com/f1bonacc1/process-compose/src/health"
	"github.com/f1bonacc1/process-compose/src/loader"
	"github.com/f1bonacc1/process-compose/src/types"
	"gopkg.in/yaml.v2"
)

// merge: loader.mergeProcess / mergeProjects / Load on [base, override] and [override extends base].
type mergeC struct {
	dir string
}

func init() { Register("merge", func() Component { return &mergeC{} }) }

// abstract view of a process configuration (see PC/Model/Merge.lean)
type aProc struct {
	sc     map[string]string
	envNil bool
	env    []string
	deps   map[string]string
	entry  []string
}

var mergeFields = []string{"command", "description", "working_dir", "namespace", "ready_log_line", "log_location",
	"is_daemon", "disabled", "replicas", "availability.restart", "availability.backoff_seconds",
	"availability.max_restarts", "availability.exit_on_end", "shutdown.command",
	"shutdown.timeout_seconds", "shutdown.signal", "shutdown.parent_only",
	"readiness_probe.period_seconds", "readiness_probe.exec.command", "liveness_probe.http_get.host"}

var mergeFieldKind = map[string]byte{ // s string, b bool, i int
	"command": 's', "description": 's', "working_dir": 's', "namespace": 's', "ready_log_line": 's', "log_location": 's',
	"is_daemon": 'b', "disabled": 'b', "replicas": 'i', "availability.restart": 's', "availability.backoff_seconds": 'i',
	"availability.max_restarts": 'i', "availability.exit_on_end": 'b', "shutdown.command": 's',
	"shutdown.timeout_seconds": 'i', "shutdown.signal": 'i', "shutdown.parent_only": 'b',
	"readiness_probe.period_seconds": 'i', "readiness_probe.exec.command": 's', "liveness_probe.http_get.host": 's'}

func parseAList(s string) []string {
	if s == "~" {
		return nil
	}
	return strings.Split(s, ",")
}

func parseAProc(s string) (*aProc, bool) {
	c := strings.Split(s, ";")
	if len(c) != 4 {
		return nil, false
	}
	p := &aProc{sc: map[string]string{}, deps: map[string]string{}}
	for _, e := range parseAList(c[0]) {
		kv := strings.Split(e, ":")
		if len(kv) != 2 {
			return nil, false
		}
		v, ok := UnHex(kv[1])
		if !ok {
			return nil, false
		}
		p.sc[kv[0]] = v
	}
	switch c[1] {
	case "!":
		p.envNil = true
	case "~":
		p.env = []string{}
	default:
		for _, e := range strings.Split(c[1], ",") {
			v, ok := UnHex(e)
			if !ok {
				return nil, false
			}
			p.env = append(p.env, v)
		}
	}
	for _, e := range parseAList(c[2]) {
		kv := strings.Split(e, ":")
		if len(kv) != 2 {
			return nil, false
		}
		p.deps[kv[0]] = kv[1]
	}
	for _, e := range parseAList(c[3]) {
		v, ok := UnHex(e)
		if !ok {
			return nil, false
		}
		p.entry = append(p.entry, v)
	}
	return p, true
}

func parseAProj(s string) (map[string]*aProc, []string, bool) {
	m := map[string]*aProc{}
	order := []string{}
	if s == "~" {
		return m, order, true
	}
	for _, e := range strings.Split(s, "|") {
		np := strings.Split(e, "@")
		if len(np) != 2 {
			return nil, nil, false
		}
		p, ok := parseAProc(np[1])
		if !ok {
			return nil, nil, false
		}
		m[np[0]] = p
		order = append(order, np[0])
	}
	return m, order, true
}

func atoiOr0(s string) int { n, _ := strconv.Atoi(s); return n }

// toConfig builds the real configuration value for an abstract process.
func (a *aProc) toConfig() types.ProcessConfig {
	pc := types.ProcessConfig{}
	g := func(k string) string { return a.sc[k] }
	pc.Command = g("command")
	pc.Description = g("description")
	pc.WorkingDir = g("working_dir")
	pc.Namespace = g("namespace")
	pc.ReadyLogLine = g("ready_log_line")
	pc.LogLocation = g("log_location")
	pc.IsDaemon = g("is_daemon") != ""
	pc.Disabled = g("disabled") != ""
	pc.Replicas = atoiOr0(g("replicas"))
	pc.RestartPolicy.Restart = g("availability.restart")
	pc.RestartPolicy.BackoffSeconds = atoiOr0(g("availability.backoff_seconds"))
	pc.RestartPolicy.MaxRestarts = atoiOr0(g("availability.max_restarts"))
	pc.RestartPolicy.ExitOnEnd = g("availability.exit_on_end") != ""
	pc.ShutDownParams.ShutDownCommand = g("shutdown.command")
	pc.ShutDownParams.ShutDownTimeout = atoiOr0(g("shutdown.timeout_seconds"))
	pc.ShutDownParams.Signal = atoiOr0(g("shutdown.signal"))
	pc.ShutDownParams.ParentOnly = g("shutdown.parent_only") != ""
	if g("readiness_probe.period_seconds") != "" || g("readiness_probe.exec.command") != "" {
		pc.ReadinessProbe = &health.Probe{PeriodSeconds: atoiOr0(g("readiness_probe.period_seconds"))}
		if g("readiness_probe.exec.command") != "" {
			pc.ReadinessProbe.Exec = &health.ExecProbe{Command: g("readiness_probe.exec.command")}
		}
	}
	if g("liveness_probe.http_get.host") != "" {
		pc.LivenessProbe = &health.Probe{HttpGet: &health.HttpProbe{Host: g("liveness_probe.http_get.host")}}
	}
	if !a.envNil {
		pc.Environment = types.Environment{}
		pc.Environment = append(pc.Environment, a.env...)
	}
	if len(a.deps) > 0 {
		pc.DependsOn = types.DependsOnConfig{}
		for k, c := range a.deps {
			pc.DependsOn[k] = types.ProcessDependency{Condition: c}
		}
	}
	if len(a.entry) > 0 {
		pc.Entrypoint = append([]string{}, a.entry...)
	}
	return pc
}

func bstr(b bool) string {
	if b {
		return "true"
	}
	return ""
}
func istr(i int) string {
	if i == 0 {
		return ""
	}
	return strconv.Itoa(i)
}

func showConfig(pc *types.ProcessConfig) string {
	v := map[string]string{
		"command": pc.Command, "description": pc.Description, "working_dir": pc.WorkingDir, "namespace": pc.Namespace,
		"ready_log_line": pc.ReadyLogLine, "log_location": pc.LogLocation, "is_daemon": bstr(pc.IsDaemon),
		"disabled": bstr(pc.Disabled), "replicas": istr(pc.Replicas), "availability.restart": pc.RestartPolicy.Restart,
		"availability.backoff_seconds": istr(pc.RestartPolicy.BackoffSeconds), "availability.max_restarts": istr(pc.RestartPolicy.MaxRestarts),
		"availability.exit_on_end": bstr(pc.RestartPolicy.ExitOnEnd), "shutdown.command": pc.ShutDownParams.ShutDownCommand,
		"shutdown.timeout_seconds": istr(pc.ShutDownParams.ShutDownTimeout), "shutdown.signal": istr(pc.ShutDownParams.Signal),
		"shutdown.parent_only": bstr(pc.ShutDownParams.ParentOnly),
	}
	if pc.ReadinessProbe != nil {
		v["readiness_probe.period_seconds"] = istr(pc.ReadinessProbe.PeriodSeconds)
		if pc.ReadinessProbe.Exec != nil {
			v["readiness_probe.exec.command"] = pc.ReadinessProbe.Exec.Command
		}
	}
	if pc.LivenessProbe != nil && pc.LivenessProbe.HttpGet != nil {
		v["liveness_probe.http_get.host"] = pc.LivenessProbe.HttpGet.Host
	}
	sc := []string{}
	for _, f := range mergeFields {
		if v[f] != "" {
			sc = append(sc, f+":"+Hex(v[f]))
		}
	}
	env := "!"
	if len(pc.Environment) > 0 {
		l := []string{}
		for _, e := range pc.Environment {
			l = append(l, Hex(e))
		}
		env = strings.Join(l, ",")
	}
	deps := []string{}
	for k, d := range pc.DependsOn {
		deps = append(deps, k+":"+d.Condition)
	}
	sort.Strings(deps)
	entry := []string{}
	for _, e := range pc.Entrypoint {
		entry = append(entry, Hex(e))
	}
	sl := func(l []string) string {
		if len(l) == 0 {
			return "~"
		}
		return strings.Join(l, ",")
	}
	return sl(sc) + ";" + env + ";" + sl(deps) + ";" + sl(entry)
}

// toYAML renders an abstract project as a YAML document through the repository's own YAML library.
func toYAML(procs map[string]*aProc, extends string) []byte {
	doc := yaml.MapSlice{}
	if extends != "" {
		doc = append(doc, yaml.MapItem{Key: "extends", Value: extends})
	}
	pm := map[string]interface{}{}
	for name, a := range procs {
		m := map[string]interface{}{}
		sub := func(k string) map[string]interface{} {
			if x, ok := m[k]; ok {
				return x.(map[string]interface{})
			}
			x := map[string]interface{}{}
			m[k] = x
			return x
		}
		for _, f := range mergeFields {
			val, ok := a.sc[f]
			if !ok || val == "" {
				continue
			}
			var v interface{} = val
			switch mergeFieldKind[f] {
			case 'b':
				v = true
			case 'i':
				v = atoiOr0(val)
			}
			parts := strings.Split(f, ".")
			switch len(parts) {
			case 1:
				m[f] = v
			case 2:
				sub(parts[0])[parts[1]] = v
			case 3:
				s1 := sub(parts[0])
				s2, ok := s1[parts[1]].(map[string]interface{})
				if !ok {
					s2 = map[string]interface{}{}
					s1[parts[1]] = s2
				}
				s2[parts[2]] = v
			}
		}
		if !a.envNil {
			m["environment"] = append([]string{}, a.env...)
		}
		if len(a.deps) > 0 {
			d := map[string]interface{}{}
			for k, c := range a.deps {
				d[k] = map[string]interface{}{"condition": c}
			}
			m["depends_on"] = d
		}
		if len(a.entry) > 0 {
			m["entrypoint"] = a.entry
		}
		pm[name] = m
	}
	doc = append(doc, yaml.MapItem{Key: "processes", Value: pm})
	b, _ := yaml.Marshal(doc)
	return b
}

func showProject(p *types.Project, baseDir string) string {
	l := []string{}
	for name, pc := range p.Processes {
		pc := pc
		if strings.HasPrefix(pc.WorkingDir, baseDir) {
			pc.WorkingDir = "@B" + strings.TrimPrefix(pc.WorkingDir, baseDir)
		}
		l = append(l, name+"@"+showConfig(&pc))
	}
	if len(l) == 0 {
		return "~"
	}
	sort.Strings(l)
	return strings.Join(l, "|")
}

func (c *mergeC) Exec(op string) string {
	w := strings.Fields(op)
	switch {
	case len(w) == 3 && w[0] == "menv":
		b, ok1 := parseAProc("~;" + w[1] + ";~;~")
		o, ok2 := parseAProc("~;" + w[2] + ";~;~")
		if !ok1 || !ok2 {
			return "bad-op"
		}
		return Safe(func() string {
			bp := &types.Project{}
			op := &types.Project{}
			if !b.envNil {
				bp.Environment = append(types.Environment{}, b.env...)
			}
			if !o.envNil {
				op.Environment = append(types.Environment{}, o.env...)
			}
			if err := loader.VerifMergeProjects(bp, op); err != nil {
				return "error"
			}
			pc := types.ProcessConfig{Environment: bp.Environment}
			return strings.Split(showConfig(&pc), ";")[1]
		})
	case len(w) == 3 && w[0] == "mproc":
		b, ok1 := parseAProc(w[1])
		o, ok2 := parseAProc(w[2])
		if !ok1 || !ok2 {
			return "bad-op"
		}
		return Safe(func() string {
			bc, oc := b.toConfig(), o.toConfig()
			m, err := loader.VerifMergeProcess(&bc, &oc)
			if err != nil {
				return "error"
			}
			return showConfig(m)
		})
	case len(w) == 3 && w[0] == "mglob":
		mb, e1 := strconv.Atoi(w[1])
		mo, e2 := strconv.Atoi(w[2])
		if e1 != nil || e2 != nil || mb < 0 || mb > 63 || mo < 0 || mo > 63 {
			return "bad-op"
		}
		return Safe(func() string {
			if c.dir == "" {
				c.dir, _ = os.MkdirTemp("", "pcmerge")
			}
			// the project-level sections of two files: bit k of a mask says whether that file mentions key k
			// (0 shell_command, 1 shell_argument, 2 log_length, 3 version, 4 environment, 5 vars)
			glob := func(mask int, tag string, ext string) []byte {
				vals := map[string][2]string{"sc": {"sh", "bash"}, "sa": {"-c", "-ec"}, "ln": {"111", "222"}}
				pick := func(k string) string {
					if tag == "B" {
						return vals[k][0]
					}
					return vals[k][1]
				}
				y := ""
				if ext != "" {
					y += "extends: " + ext + "\n"
				}
				if mask&3 != 0 {
					y += "shell:\n"
					if mask&1 != 0 {
						y += "  shell_command: \"" + pick("sc") + "\"\n"
					}
					if mask&2 != 0 {
						y += "  shell_argument: \"" + pick("sa") + "\"\n"
					}
				}
				if mask&4 != 0 {
					y += "log_length: " + pick("ln") + "\n"
				}
				if mask&8 != 0 {
					y += "version: \"v" + tag + "\"\n"
				}
				if mask&16 != 0 {
					y += "environment:\n  - \"G=" + tag + "\"\n  - \"" + tag + tag + "=1\"\n"
				}
				if mask&32 != 0 {
					y += "vars:\n  v: \"" + tag + "\"\n  " + strings.ToLower(tag) + ": \"1\"\n"
				}
				y += "processes:\n  p" + tag + ":\n    command: \"true\"\n"
				return []byte(y)
			}
			bdir := filepath.Join(c.dir, "gbase")
			cdir := filepath.Join(c.dir, "gchild")
			_ = os.MkdirAll(bdir, 0o755)
			_ = os.MkdirAll(cdir, 0o755)
			bf := filepath.Join(bdir, "base.yaml")
			of := filepath.Join(cdir, "over.yaml")
			ef := filepath.Join(cdir, "child.yaml")
			_ = os.WriteFile(bf, glob(mb, "B", ""), 0o644)
			_ = os.WriteFile(of, glob(mo, "O", ""), 0o644)
			_ = os.WriteFile(ef, glob(mo, "O", "../gbase/base.yaml"), 0o644)
			show := func(p *types.Project) string {
				either := mb | mo
				f := func(bit int, v string) string {
					if either&bit == 0 {
						return "-"
					}
					return v
				}
				sc, sa := "nil", "nil"
				if p.ShellConfig != nil {
					sc, sa = p.ShellConfig.ShellCommand, p.ShellConfig.ShellArgument
				}
				env := []string{}
				for _, e := range p.Environment {
					env = append(env, e)
				}
				sort.Strings(env)
				vs := []string{}
				for k, v := range p.Vars {
					vs = append(vs, fmt.Sprintf("%s:%v", k, v))
				}
				sort.Strings(vs)
				names := []string{}
				for n := range p.Processes {
					names = append(names, n)
				}
				sort.Strings(names)
				return fmt.Sprintf("sc=%s sa=%s ln=%s ve=%s en=%s va=%s procs=%s", f(1, sc), f(2, sa), f(4, strconv.Itoa(p.LogLength)), f(8, p.Version),
					f(16, strings.Join(env, ",")), f(32, strings.Join(vs, ",")), strings.Join(names, ","))
			}
			two, err := loader.Load(&loader.LoaderOptions{FileNames: []string{bf, of}, IsInternalLoader: true})
			if err != nil {
				return "load-error:two:" + strings.ReplaceAll(err.Error(), " ", "_")
			}
			ext, err := loader.Load(&loader.LoaderOptions{FileNames: []string{ef}, IsInternalLoader: true})
			if err != nil {
				return "load-error:ext:" + strings.ReplaceAll(err.Error(), " ", "_")
			}
			return "two:" + strings.ReplaceAll(show(two), " ", ";") + " ext:" + strings.ReplaceAll(show(ext), " ", ";")
		})
	case len(w) == 3 && w[0] == "mfiles":
		b, _, ok1 := parseAProj(w[1])
		o, _, ok2 := parseAProj(w[2])
		if !ok1 || !ok2 {
			return "bad-op"
		}
		return Safe(func() string {
			if c.dir == "" {
				c.dir, _ = os.MkdirTemp("", "pcmerge")
			}
			bdir := filepath.Join(c.dir, "basedir")
			cdir := filepath.Join(c.dir, "childdir")
			_ = os.MkdirAll(bdir, 0o755)
			_ = os.MkdirAll(cdir, 0o755)
			bf := filepath.Join(bdir, "base.yaml")
			of := filepath.Join(cdir, "over.yaml")
			ef := filepath.Join(cdir, "child.yaml")
			_ = os.WriteFile(bf, toYAML(b, ""), 0o644)
			_ = os.WriteFile(of, toYAML(o, ""), 0o644)
			_ = os.WriteFile(ef, toYAML(o, "../basedir/base.yaml"), 0o644)
			two, err := loader.Load(&loader.LoaderOptions{FileNames: []string{bf, of}, IsInternalLoader: true})
			if err != nil {
				return "load-error:two:" + strings.ReplaceAll(err.Error(), " ", "_")
			}
			ext, err := loader.Load(&loader.LoaderOptions{FileNames: []string{ef}, IsInternalLoader: true})
			if err != nil {
				return "load-error:ext:" + strings.ReplaceAll(err.Error(), " ", "_")
			}
			return "two=" + showProject(two, bdir) + " ext=" + showProject(ext, bdir)
		})
	case len(w) == 4 && w[0] == "mchain":
		a, _, ok1 := parseAProj(w[1])
		b, _, ok2 := parseAProj(w[2])
		cc, _, ok3 := parseAProj(w[3])
		if !ok1 || !ok2 || !ok3 {
			return "bad-op"
		}
		return Safe(func() string {
			if c.dir == "" {
				c.dir, _ = os.MkdirTemp("", "pcmerge")
			}
			adir := filepath.Join(c.dir, "granddir")
			bdir := filepath.Join(c.dir, "parentdir")
			cdir := filepath.Join(c.dir, "childdir")
			for _, d := range []string{adir, bdir, cdir} {
				_ = os.MkdirAll(d, 0o755)
			}
			// explicit list
			fa, fb, fc := filepath.Join(adir, "a.yaml"), filepath.Join(bdir, "b.yaml"), filepath.Join(cdir, "c.yaml")
			_ = os.WriteFile(fa, toYAML(a, ""), 0o644)
			_ = os.WriteFile(fb, toYAML(b, ""), 0o644)
			_ = os.WriteFile(fc, toYAML(cc, ""), 0o644)
			// chain: child extends parent extends grand
			eb, ec := filepath.Join(bdir, "b_ext.yaml"), filepath.Join(cdir, "c_ext.yaml")
			_ = os.WriteFile(eb, toYAML(b, "../granddir/a.yaml"), 0o644)
			_ = os.WriteFile(ec, toYAML(cc, "../parentdir/b_ext.yaml"), 0o644)
			three, err := loader.Load(&loader.LoaderOptions{FileNames: []string{fa, fb, fc}, IsInternalLoader: true})
			if err != nil {
				return "load-error:three:" + strings.ReplaceAll(err.Error(), " ", "_")
			}
			ext, err := loader.Load(&loader.LoaderOptions{FileNames: []string{ec}, IsInternalLoader: true})
			if err != nil {
				return "load-error:ext:" + strings.ReplaceAll(err.Error(), " ", "_")
			}
			sh := func(p *types.Project) string {
				return strings.ReplaceAll(showProjectHex(p, adir, "@A", bdir, "@B"), "", "")
			}
			return "two=" + sh(three) + " ext=" + sh(ext)
		})
	}
	return "bad-op"
}

// showProjectHex is showProject with two directory prefixes replaced by placeholders.
func showProjectHex(p *types.Project, d1, r1, d2, r2 string) string {
	l := []string{}
	for name, pc := range p.Processes {
		pc := pc
		if strings.HasPrefix(pc.WorkingDir, d1) {
			pc.WorkingDir = r1 + strings.TrimPrefix(pc.WorkingDir, d1)
		} else if strings.HasPrefix(pc.WorkingDir, d2) {
			pc.WorkingDir = r2 + strings.TrimPrefix(pc.WorkingDir, d2)
		}
		l = append(l, name+"@"+showConfig(&pc))
	}
	if len(l) == 0 {
		return "~"
	}
	sort.Strings(l)
	return strings.Join(l, "|")
}

var mergeVals = []string{"x", "a b", "k=v", "=", "a=b=c", "\"q\"", "'s'", " lead", "trail ", "#h", "é", "a:b", "{x}", "[1]", "-", "~", "null", "true", "0", "!t"}

func genEnvList(r *rand.Rand) string {
	switch r.Intn(8) {
	case 0:
		return "!"
	case 1:
		return "~"
	}
	n := 1 + r.Intn(4)
	l := []string{}
	for i := 0; i < n; i++ {
		k := []string{"A", "B", "C", "LONG_KEY", "a"}[r.Intn(5)]
		switch r.Intn(10) {
		case 0:
			l = append(l, Hex(k)) // no '='
		case 1:
			l = append(l, Hex(k+"=")) // empty value
		case 2:
			l = append(l, Hex("="+mergeVals[r.Intn(len(mergeVals))])) // empty key
		default:
			l = append(l, Hex(k+"="+mergeVals[r.Intn(len(mergeVals))]))
		}
	}
	return strings.Join(l, ",")
}

func genAProc(r *rand.Rand, forFiles bool, names []string, self int) string {
	sc := []string{}
	for _, f := range mergeFields {
		if r.Intn(3) != 0 {
			continue
		}
		if forFiles && (f == "disabled" || f == "log_location" || strings.HasPrefix(f, "readiness_probe") || strings.HasPrefix(f, "liveness_probe") || f == "replicas") {
			continue
		}
		var v string
		switch mergeFieldKind[f] {
		case 'b':
			v = "true"
		case 'i':
			v = strconv.Itoa(1 + r.Intn(20))
		default:
			v = mergeVals[r.Intn(len(mergeVals))]
			if forFiles {
				// keep to values that survive the YAML round trip and `$`-free, non-template text
				v = []string{"x", "a b", "k=v", "q-1", "/abs/dir", "sub", "sub/deeper", "v2"}[r.Intn(8)]
			}
			switch f {
			case "working_dir":
				v = []string{"/abs/dir", "sub", "sub/deeper", "/"}[r.Intn(4)]
			case "availability.restart":
				v = []string{"always", "on_failure", "no", "exit_on_failure"}[r.Intn(4)]
			case "namespace":
				v = []string{"ns1", "ns2", "default"}[r.Intn(3)]
			}
		}
		sc = append(sc, f+":"+Hex(v))
	}
	deps := []string{}
	for j := 0; j < self; j++ {
		if r.Intn(3) == 0 {
			deps = append(deps, names[j]+":"+[]string{"process_completed", "process_completed_successfully", "process_started"}[r.Intn(3)])
		}
	}
	entry := []string{}
	if !forFiles && r.Intn(4) == 0 {
		for i := 0; i <= r.Intn(2); i++ {
			entry = append(entry, Hex(mergeVals[r.Intn(len(mergeVals))]))
		}
	}
	sl := func(l []string) string {
		if len(l) == 0 {
			return "~"
		}
		return strings.Join(l, ",")
	}
	env := genEnvList(r)
	return sl(sc) + ";" + env + ";" + sl(deps) + ";" + sl(entry)
}

func (c *mergeC) Gen(r *rand.Rand, tier string, emit func(string)) {
	n := 400
	nf := 60
	if tier == "thorough" {
		n, nf = 20000, 1500
	}
	// project-level sections of two files (and of a file extending a base): which keys each mentions
	gm := []int{0, 1, 2, 4, 8, 16, 32, 63, 3}
	// (a shell section needs a shell_command in at least one of the files: the loader rejects an empty one)
	okMasks := func(a, b int) bool { return (a|b)&2 == 0 || (a|b)&1 != 0 }
	for _, a := range gm {
		for _, b := range gm {
			if okMasks(a, b) {
				emit(fmt.Sprintf("mglob %d %d", a, b))
			}
		}
	}
	for i := 0; i < nf/2; i++ {
		if a, b := r.Intn(64), r.Intn(64); okMasks(a, b) {
			emit(fmt.Sprintf("mglob %d %d", a, b))
		}
	}
	for i := 0; i < n; i++ {
		emit(fmt.Sprintf("menv %s %s", genEnvList(r), genEnvList(r)))
	}
	names := []string{"p0", "p1", "p2", "p3"}
	for i := 0; i < n; i++ {
		emit(fmt.Sprintf("mproc %s %s", genAProc(r, false, names, r.Intn(3)), genAProc(r, false, names, r.Intn(3))))
	}
	for i := 0; i < nf; i++ {
		// presence of each process in grand / base / override; dependencies only on processes of the union
		inA, inB, inO := []bool{}, []bool{}, []bool{}
		present := []string{}
		for range names {
			a, b, o := r.Intn(2) == 0, r.Intn(3) != 0, r.Intn(3) != 0
			if a && !(b || o) {
				b = true // the union of base and override is the universe of all three
			}
			inA, inB, inO = append(inA, a), append(inB, b), append(inO, o)
		}
		for j, nm := range names {
			if inB[j] || inO[j] {
				present = append(present, nm)
			}
		}
		mk := func(in []bool) string {
			l := []string{}
			k := 0
			for j, nm := range names {
				if inB[j] || inO[j] {
					k++
				}
				if !in[j] {
					continue
				}
				l = append(l, nm+"@"+genAProc(r, true, present, k-1))
			}
			if len(l) == 0 {
				return "~"
			}
			return strings.Join(l, "|")
		}
		emit(fmt.Sprintf("mfiles %s %s", mk(inB), mk(inO)))
		if i%2 == 0 {
			emit(fmt.Sprintf("mchain %s %s %s", mk(inA), mk(inB), mk(inO)))
		}
	}
}
