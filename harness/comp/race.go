package comp

import (
	"context"
	"fmt"
	"math/rand"
	"os"
	"os/exec"
	"path/filepath"
	"regexp"
	"sort"
	"strconv"
	"strings"
	"sync"
	"time"

	"github.com/f1bonacc1/process-compose/src/app"
	"github.com/f1bonacc1/process-compose/src/loader"
	"github.com/f1bonacc1/process-compose/src/types"
	"github.com/f1bonacc1/process-compose/src/verif"
)

// race: concurrent API operations against a live runner whose processes exit, restart and log,
// in a worker subprocess built with the race detector (PC_RACE_BIN). The coordinator collects the
// detector's reports (by the pair of functions involved), runtime crashes and calls that never
// return. This is the failing-input search for C20, not a proof.
type raceC struct{}

func init() { Register("race", func() Component { return &raceC{} }) }

var raceHdr = regexp.MustCompile(`^(Read|Write|Previous read|Previous write) at 0x[0-9a-f]+ by (main )?goroutine`)
var raceFn = regexp.MustCompile(`^  (github\.com/f1bonacc1/process-compose/src/[^\s(]+(\([^)]*\))?[^\s(]*)\(`)

var raceDecl = regexp.MustCompile(`^[A-Za-z0-9_/]+\.(\(\*?[A-Za-z0-9_]+\)\.)?[A-Za-z0-9_]+`)

// raceSignatures extracts, per DATA RACE block, the innermost project function of each of the two accesses.
func raceSignatures(log string) []string {
	set := map[string]bool{}
	blocks := strings.Split(log, "WARNING: DATA RACE")
	for _, b := range blocks[1:] {
		lines := strings.Split(b, "\n")
		var fns []string
		for i := 0; i < len(lines); i++ {
			if raceHdr.MatchString(strings.TrimSpace(lines[i])) {
				// first project frame below this header
				for j := i + 1; j < len(lines) && strings.TrimSpace(lines[j]) != ""; j++ {
					if m := raceFn.FindStringSubmatch(lines[j]); m != nil {
						f := strings.TrimPrefix(m[1], "github.com/f1bonacc1/process-compose/src/")
						// the declared function or method only: closures, defer and go wrappers
						// (run.func1, run.deferwrap1, ...) count as their enclosing function
						if mm := raceDecl.FindString(f); mm != "" {
							f = mm
						}
						fns = append(fns, f)
						break
					}
				}
			}
			if len(fns) == 2 {
				break
			}
		}
		if len(fns) == 2 {
			sort.Strings(fns)
			set[fns[0]+"~"+fns[1]] = true
		} else if len(fns) == 1 {
			set[fns[0]+"~?"] = true
		}
	}
	out := []string{}
	for k := range set {
		out = append(out, k)
	}
	sort.Strings(out)
	return out
}

func (c *raceC) Exec(op string) string {
	w := strings.Fields(op)
	if len(w) != 5 || w[0] != "race" {
		return "bad-op"
	}
	bin := os.Getenv("PC_RACE_BIN")
	if bin == "" {
		return "no-race-binary"
	}
	dir, _ := os.MkdirTemp("", "pcrace")
	defer os.RemoveAll(dir)
	ctx, cancel := context.WithTimeout(context.Background(), 90*time.Second)
	defer cancel()
	cmd := exec.CommandContext(ctx, bin, "raceworker", w[1], w[2], w[3], w[4], dir)
	cmd.Env = append(os.Environ(), "GORACE=log_path="+filepath.Join(dir, "race")+" halt_on_error=0", "GOMAXPROCS=8")
	out, err := cmd.CombinedOutput()
	logs := ""
	files, _ := filepath.Glob(filepath.Join(dir, "race.*"))
	for _, f := range files {
		b, _ := os.ReadFile(f)
		logs += string(b)
	}
	res := []string{}
	for _, s := range raceSignatures(logs) {
		res = append(res, "race:"+s)
	}
	text := string(out)
	for _, l := range strings.Split(text, "\n") {
		if strings.HasPrefix(l, "STUCK ") || strings.HasPrefix(l, "PANIC ") {
			res = append(res, strings.ReplaceAll(strings.ToLower(l[:5])+":"+strings.TrimSpace(l[6:]), " ", "_"))
		}
	}
	if ctx.Err() != nil {
		res = append(res, "stuck:worker-did-not-finish")
	} else if err != nil && !strings.Contains(text, "WORKER DONE") {
		msg := "crash:worker-died"
		for _, l := range strings.Split(text, "\n") {
			if strings.HasPrefix(l, "fatal error:") || strings.HasPrefix(l, "panic:") {
				msg = "crash:" + strings.ReplaceAll(strings.TrimSpace(l), " ", "_")
				break
			}
		}
		res = append(res, msg)
	}
	if len(res) == 0 {
		return "clean"
	}
	sort.Strings(res)
	return strings.Join(res, ",")
}

func (c *raceC) Gen(r *rand.Rand, tier string, emit func(string)) {
	n := 6
	if tier == "thorough" {
		n = 36
	}
	// several workers in parallel would perturb each other's timing; run them one after another
	for i := 0; i < n; i++ {
		mix := []string{"all", "query", "lifecycle", "scale", "logs", "shutdown"}[i%6]
		emit(fmt.Sprintf("race %d %d %d %s", r.Intn(1<<30), 3+r.Intn(4), 60+r.Intn(60), mix))
	}
}

type nullObserver struct{ n int }

func (o *nullObserver) WriteString(line string) (int, error) { o.n++; return len(line), nil }
func (o *nullObserver) SetLines(lines []string) {
	for _, l := range lines {
		o.n += len(l)
	}
}
func (o *nullObserver) GetUniqueID() string                  { return fmt.Sprintf("obs%p", o) }
func (o *nullObserver) GetTailLength() int                   { return 20 }

// RaceWorker is the body of the `raceworker` subcommand (race-detector build).
func RaceWorker(args []string) {
	seed, _ := strconv.ParseInt(args[0], 10, 64)
	workers, _ := strconv.Atoi(args[1])
	perWorker, _ := strconv.Atoi(args[2])
	mix := args[3]
	dir := args[4]
	verif.Reset(false, false)
	app.VerifCommander = nil
	app.VerifStopCtx = nil
	app.VerifStopCtxOf = nil
	app.VerifBackoff = func(name string, cancelled bool) time.Duration { return 5 * time.Millisecond }
	yml := `log_length: 5
processes:
  a:
    command: "echo a-out; sleep 0.03"
    availability:
      restart: always
  b:
    command: "while :; do echo b-line; echo b-more; echo b-again; sleep 0.002; done"
    replicas: 2
    depends_on:
      a:
        condition: process_started
    shutdown:
      timeout_seconds: 1
  c:
    command: "sleep 0.02; exit 1"
    availability:
      restart: on_failure
      max_restarts: 50
  d:
    command: "echo d; sleep 0.05"
    disabled: true
`
	f := filepath.Join(dir, "pc.yaml")
	_ = os.WriteFile(f, []byte(yml), 0o644)
	prj, err := loader.Load(&loader.LoaderOptions{FileNames: []string{f}, IsInternalLoader: true})
	if err != nil {
		fmt.Println("PANIC load-error")
		return
	}
	r, err := app.NewProjectRunner((&app.ProjectOpts{}).WithProject(prj).WithIsTuiOn(true))
	if err != nil {
		fmt.Println("PANIC runner-error")
		return
	}
	runDone := make(chan struct{})
	go func() { _ = r.Run(); close(runDone) }()
	time.Sleep(80 * time.Millisecond)
	names := []string{"a", "b-0", "b-1", "c", "d", "nosuch"}
	var mu sync.Mutex
	guard := func(label string, fn func()) {
		done := make(chan struct{})
		go func() {
			defer func() {
				if e := recover(); e != nil {
					mu.Lock()
					fmt.Printf("PANIC %s %v\n", label, e)
					mu.Unlock()
				}
				close(done)
			}()
			fn()
		}()
		select {
		case <-done:
		case <-time.After(15 * time.Second):
			mu.Lock()
			fmt.Printf("STUCK %s\n", label)
			mu.Unlock()
		}
	}
	var wg sync.WaitGroup
	for wkr := 0; wkr < workers; wkr++ {
		wg.Add(1)
		go func(wkr int) {
			defer wg.Done()
			rr := rand.New(rand.NewSource(seed + int64(wkr)*7919))
			for i := 0; i < perWorker; i++ {
				n := names[rr.Intn(len(names))]
				k := rr.Intn(100)
				query := func() {
					switch rr.Intn(9) {
					case 0:
						guard("GetProcessesState", func() { _, _ = r.GetProcessesState() })
					case 1:
						guard("GetProcessState", func() { _, _ = r.GetProcessState(n) })
					case 2:
						guard("GetProcessInfo", func() { _, _ = r.GetProcessInfo(n) })
					case 3:
						// the caller keeps reading the lines it was given while the process goes on logging
						guard("GetProcessLog", func() {
							lines, _ := r.GetProcessLog(n, 50, 0)
							total := 0
							for j := 0; j < 40; j++ {
								for _, l := range lines {
									total += len(l)
								}
								time.Sleep(100 * time.Microsecond)
							}
							_ = total
						})
					case 4:
						guard("GetProcessLogLength", func() { _ = r.GetProcessLogLength(n) })
					case 5:
						guard("GetProjectState", func() { _, _ = r.GetProjectState(false) })
					case 6:
						guard("GetLexicographicProcessNames", func() { _, _ = r.GetLexicographicProcessNames() })
					case 7:
						guard("GetDependenciesOrderNames", func() { _, _ = r.GetDependenciesOrderNames() })
					case 8:
						guard("GetProcessPorts", func() { _, _ = r.GetProcessPorts(n) })
					}
				}
				lifecycle := func() {
					switch rr.Intn(3) {
					case 0:
						guard("StopProcess", func() { _ = r.StopProcess(n) })
					case 1:
						guard("StartProcess", func() { _ = r.StartProcess(n) })
					case 2:
						guard("RestartProcess", func() { _ = r.RestartProcess(n) })
					}
				}
				scale := func() {
					guard("ScaleProcess", func() { _ = r.ScaleProcess([]string{"b-0", "b", "b-1", "d"}[rr.Intn(4)], 1+rr.Intn(3)) })
				}
				logs := func() {
					guard("Subscribe", func() {
						o := &nullObserver{}
						if err := r.GetLogsAndSubscribe(n, o); err == nil {
							time.Sleep(time.Duration(rr.Intn(8)) * time.Millisecond)
							_ = r.UnSubscribeLogger(n, o)
						}
					})
				}
				update := func() {
					guard("UpdateProcess", func() {
						if pc, err := r.GetProcessInfo("d"); err == nil {
							cp := *pc
							cp.Description = fmt.Sprintf("d%d", i)
							_ = r.UpdateProcess(&cp)
						}
					})
				}
				switch mix {
				case "query":
					query()
				case "lifecycle":
					if k < 40 {
						lifecycle()
					} else {
						query()
					}
				case "scale":
					if k < 25 {
						scale()
					} else {
						query()
					}
				case "logs":
					if k < 50 {
						logs()
					} else {
						query()
					}
				default:
					switch {
					case k < 50:
						query()
					case k < 70:
						lifecycle()
					case k < 80:
						scale()
					case k < 92:
						logs()
					default:
						update()
					}
				}
				time.Sleep(time.Duration(rr.Intn(3)) * time.Millisecond)
			}
		}(wkr)
	}
	if mix == "shutdown" {
		time.Sleep(60 * time.Millisecond)
		guard("ShutDownProject", func() { _ = r.ShutDownProject() })
	}
	wg.Wait()
	guard("ShutDownProject", func() { _ = r.ShutDownProject() })
	select {
	case <-runDone:
	case <-time.After(10 * time.Second):
		fmt.Println("STUCK Run-did-not-return-after-shutdown")
	}
	_ = types.ProcessStateRunning
	fmt.Println("WORKER DONE")
}
