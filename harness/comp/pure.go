package comp

import (
	"fmt"
	"math"
	"math/rand"
	"strconv"
	"strings"
	"sync/atomic"
	"time"

	"github.com/f1bonacc1/process-compose/src/app"
	"github.com/f1bonacc1/process-compose/src/health"
)

// restart: Process.isRestartable / getBackoff through the verif exports.
type restart struct{}

func init() {
	Register("restart", func() Component { return &restart{} })
	Register("probe", func() Component { return &probe{} })
	Register("atoi", func() Component { return &atoiC{} })
}

func (c *restart) Exec(op string) string {
	w := strings.Fields(op)
	return Safe(func() string {
		switch {
		case len(w) == 6 && w[0] == "dec":
			pol, ok := UnHex(w[1])
			m, e1 := strconv.Atoi(w[2])
			r, e2 := strconv.Atoi(w[3])
			code, e3 := strconv.Atoi(w[4])
			if !ok || e1 != nil || e2 != nil || e3 != nil || (w[5] != "true" && w[5] != "false") {
				return "bad-op"
			}
			res, after := app.VerifIsRestartable(pol, m, r, code, w[5] == "true")
			return fmt.Sprintf("%v %v", res, after)
		case len(w) == 2 && w[0] == "backoff":
			b, err := strconv.Atoi(w[1])
			if err != nil {
				return "bad-op"
			}
			ns := app.VerifGetBackoffNanos(b)
			if ns%1e9 != 0 {
				return fmt.Sprintf("nanos:%d", ns)
			}
			return strconv.FormatInt(ns/1e9, 10)
		}
		return "bad-op"
	})
}

func (c *restart) Gen(r *rand.Rand, tier string, emit func(string)) {
	// the full decision table over representative values (exhaustive product)
	pols := []string{"always", "on_failure", "exit_on_failure", "no", "", "On_Failure", "always ", "unknown"}
	maxs := []int{-1, 0, 1, 2, 3, 4}
	rs := []int{-1, 0, 1, 2, 3, 4, 5}
	codes := []int{-1, 0, 1, 2, 127, 255}
	for _, p := range pols {
		for _, m := range maxs {
			for _, n := range rs {
				for _, c := range codes {
					for _, s := range []string{"false", "true"} {
						emit(fmt.Sprintf("dec %s %d %d %d %s", Hex(p), m, n, c, s))
					}
				}
			}
		}
	}
	n := 300
	if tier == "thorough" {
		n = 20000
	}
	for i := 0; i < n; i++ {
		emit(fmt.Sprintf("dec %s %d %d %d %v", Hex(pols[r.Intn(len(pols))]), r.Intn(2000)-5, r.Intn(2000)-5, r.Intn(600)-300, r.Intn(2) == 0))
	}
	for b := -3; b <= 70; b++ {
		emit(fmt.Sprintf("backoff %d", b))
	}
	for _, b := range []int{1 << 20, 1 << 31, -1 << 31, 3600, 86400} {
		emit(fmt.Sprintf("backoff %d", b))
	}
}

// probe: health.Probe defaults and Prober.healthCheckCompleted.
type probe struct{}

func (c *probe) Exec(op string) string {
	w := strings.Fields(op)
	return Safe(func() string {
		switch {
		case len(w) == 6 && w[0] == "dflt":
			v := make([]int, 5)
			for i := range v {
				x, err := strconv.Atoi(w[i+1])
				if err != nil {
					return "bad-op"
				}
				v[i] = x
			}
			p := health.Probe{InitialDelay: v[0], PeriodSeconds: v[1], TimeoutSeconds: v[2], SuccessThreshold: v[3], FailureThreshold: v[4]}
			p.ValidateAndSetDefaults()
			return fmt.Sprintf("%d %d %d %d %d", p.InitialDelay, p.PeriodSeconds, p.TimeoutSeconds, p.SuccessThreshold, p.FailureThreshold)
		case len(w) == 3 && w[0] == "port":
			port, ok := UnHex(w[1])
			n, err := strconv.Atoi(w[2])
			if !ok || err != nil {
				return "bad-op"
			}
			// through the public entry point: Probe.ValidateAndSetDefaults with an http probe
			p := health.Probe{HttpGet: &health.HttpProbe{Port: port, NumPort: n}}
			p.ValidateAndSetDefaults()
			return strconv.Itoa(p.HttpGet.NumPort)
		case len(w) == 5 && w[0] == "hc":
			th, e1 := strconv.Atoi(w[1])
			cf, e2 := strconv.ParseInt(w[2], 10, 64)
			st, ok := UnHex(w[3])
			if e1 != nil || e2 != nil || !ok || (w[4] != "true" && w[4] != "false") {
				return "bad-op"
			}
			called, isOk, fatal := health.VerifHealthCheckCompleted(th, cf, st, w[4] == "true")
			if !called {
				return "none"
			}
			return fmt.Sprintf("%v %v", isOk, fatal)
		case len(w) == 4 && w[0] == "life":
			// a real prober (exec `true`, period 1 s): Start, Stop after stopMs, then watch for results
			delay, e1 := strconv.Atoi(w[1])
			stopMs, e2 := strconv.Atoi(w[2])
			watchMs, e3 := strconv.Atoi(w[3])
			if e1 != nil || e2 != nil || e3 != nil {
				return "bad-op"
			}
			var before, after atomic.Int64
			var stopped atomic.Bool
			pr, err := health.New("life_probe", health.Probe{Exec: &health.ExecProbe{Command: "true"}, InitialDelay: delay, PeriodSeconds: 1},
				func(bool, bool, string) {
					if stopped.Load() {
						after.Add(1)
					} else {
						before.Add(1)
					}
				})
			if err != nil {
				return "new-error"
			}
			pr.Start()
			time.Sleep(time.Duration(stopMs) * time.Millisecond)
			pr.Stop()
			stopped.Store(true)
			time.Sleep(time.Duration(watchMs) * time.Millisecond)
			b := "none"
			if before.Load() > 0 {
				b = "some"
			}
			return fmt.Sprintf("before=%s after=%d", b, after.Load())
		}
		return "bad-op"
	})
}

func (c *probe) Gen(r *rand.Rand, tier string, emit func(string)) {
	vals := []int{-2, -1, 0, 1, 2, 3}
	if tier == "thorough" {
		vals = []int{-2, -1, 0, 1, 2, 3, 9, 10, 11, 65535, math.MaxInt32, math.MinInt32, math.MaxInt64, math.MinInt64}
	}
	for _, a := range vals {
		for _, b := range vals {
			for _, cc := range vals {
				for _, d := range vals {
					for _, e := range vals {
						emit(fmt.Sprintf("dflt %d %d %d %d %d", a, b, cc, d, e))
					}
				}
			}
		}
	}
	big := []int{math.MaxInt32, math.MinInt32, math.MaxInt64, math.MinInt64, 65535, 10}
	for i := 0; i < 200; i++ {
		pick := func() int {
			if r.Intn(3) == 0 {
				return big[r.Intn(len(big))]
			}
			return r.Intn(40) - 10
		}
		emit(fmt.Sprintf("dflt %d %d %d %d %d", pick(), pick(), pick(), pick(), pick()))
	}
	// life cycle of a real prober: stopped during the initial delay, stopped while running
	emit("life 1 150 1600")
	emit("life 0 1400 1300")
	ports := []string{"", "0", "1", "80", "8080", "65535", "65536", "65534", "-1", "+80", "-0", " 80", "80 ", "0080", "8_0", "0x50", "1e3",
		"99999999999999999999", "-99999999999999999999", "9223372036854775807", "9223372036854775808", "http", "８０", "+", "-", "٣"}
	for _, p := range ports {
		for _, prev := range []int{0, 7, -3, 70000} {
			emit(fmt.Sprintf("port %s %d", Hex(p), prev))
		}
	}
	alpha := []rune("0123456789+-_ x.")
	n := 400
	if tier == "thorough" {
		n = 50000
	}
	for i := 0; i < n; i++ {
		l := r.Intn(7)
		s := ""
		for j := 0; j < l; j++ {
			s += string(alpha[r.Intn(len(alpha))])
		}
		emit(fmt.Sprintf("port %s %d", Hex(s), r.Intn(5)-1))
	}
	for th := -1; th <= 5; th++ {
		for cf := int64(-1); cf <= 7; cf++ {
			for _, st := range []string{"ok", "failed", "", "OK"} {
				for _, stopped := range []string{"false", "true"} {
					emit(fmt.Sprintf("hc %d %d %s %s", th, cf, Hex(st), stopped))
				}
			}
		}
	}
}

// atoi: strconv.Atoi vs PC.Go.atoi (Go-semantics library check).
type atoiC struct{}

func (c *atoiC) Exec(op string) string {
	w := strings.Fields(op)
	if len(w) != 2 || w[0] != "atoi" {
		return "bad-op"
	}
	s, ok := UnHex(w[1])
	if !ok {
		return "bad-op"
	}
	v, err := strconv.Atoi(s)
	return fmt.Sprintf("%d %v", v, err == nil)
}

func (c *atoiC) Gen(r *rand.Rand, tier string, emit func(string)) {
	fixed := []string{"", "0", "-0", "+0", "+", "-", "007", "12", "-12", "+12", "1_2", "0x1f", " 1", "1 ", "1.0", "9223372036854775807",
		"9223372036854775808", "-9223372036854775808", "-9223372036854775809", "99999999999999999999999", "-99999999999999999999999", "٣", "１２", "--1", "+-1", "1e3"}
	for _, s := range fixed {
		emit("atoi " + Hex(s))
	}
	alpha := []rune("0123456789+-_ a")
	n := 3000
	if tier == "thorough" {
		n = 300000
	}
	for i := 0; i < n; i++ {
		l := r.Intn(22)
		s := ""
		for j := 0; j < l; j++ {
			if r.Intn(4) > 0 {
				s += string(alpha[r.Intn(10)])
			} else {
				s += string(alpha[r.Intn(len(alpha))])
			}
		}
		emit("atoi " + Hex(s))
	}
}
