package comp

import (
	"path/filepath"
	"os"
	"strconv"
	"fmt"
	"math/rand"
	"reflect"
	"sort"
	"strings"

	"github.com/f1bonacc1/process-compose/src/app"
	"github.com/f1bonacc1/process-compose/src/command"
	"github.com/f1bonacc1/process-compose/src/health"
	"github.com/f1bonacc1/process-compose/src/loader"
	"github.com/f1bonacc1/process-compose/src/types"
	"github.com/f1bonacc1/process-compose/src/verif"
)

// update: ProcessConfig.Compare field sensitivity and ProjectRunner.UpdateProject on the real runner.
type updateC struct {
	sc   *scaleC
	prev map[string]int
}

func init() { Register("update", func() Component { return &updateC{} }) }

func baseConf(name string) types.ProcessConfig {
	pc := types.ProcessConfig{
		Name: name, ReplicaName: name, Command: "run " + name, Namespace: "default", Replicas: 1, LaunchTimeout: 5,
		DependsOn: types.DependsOnConfig{}, Environment: types.Environment{"A=1"}, Vars: types.Vars{"k": "v"},
		Description: "d",
	}
	pc.AssignProcessExecutableAndArgs(command.DefaultShellConfig(), "")
	return pc
}

// mutate changes exactly one field (by name) of the configuration, generically.
func mutate(pc *types.ProcessConfig, field string) bool {
	v := reflect.ValueOf(pc).Elem().FieldByName(field)
	if !v.IsValid() {
		return false
	}
	switch v.Kind() {
	case reflect.String:
		v.SetString(v.String() + "x")
	case reflect.Bool:
		v.SetBool(!v.Bool())
	case reflect.Int:
		v.SetInt(v.Int() + 1)
	case reflect.Slice:
		v.Set(reflect.Append(v, reflect.ValueOf("extra")))
	case reflect.Map:
		switch field {
		case "DependsOn":
			pc.DependsOn = types.DependsOnConfig{"other": types.ProcessDependency{Condition: types.ProcessConditionCompleted}}
		case "Extensions":
			pc.Extensions = map[string]interface{}{"x-a": 1}
		case "Vars":
			pc.Vars = types.Vars{"k": "v", "k2": "v2"}
		default:
			return false
		}
	case reflect.Ptr:
		switch field {
		case "LivenessProbe", "ReadinessProbe":
			v.Set(reflect.ValueOf(&health.Probe{Exec: &health.ExecProbe{Command: "true"}, InitialDelay: 36000}))
		case "LoggerConfig":
			v.Set(reflect.ValueOf(&types.LoggerConfig{}))
		default:
			return false
		}
	case reflect.Struct:
		switch field {
		case "RestartPolicy":
			pc.RestartPolicy.BackoffSeconds += 3
		case "ShutDownParams":
			pc.ShutDownParams.Signal = 2
		default:
			return false
		}
	default:
		return false
	}
	return true
}

// variant sets one nested, launch-relevant value of the configuration to the k-th of a list of
// pairwise different values (group: readiness / liveness probe, shutdown parameters, restart policy,
// dependency, environment).
func variant(pc *types.ProcessConfig, group string, k int) bool {
	probe := func(k int) *health.Probe {
		switch k {
		case 0:
			return nil
		case 1:
			return &health.Probe{Exec: &health.ExecProbe{Command: "true"}, PeriodSeconds: 5}
		case 2:
			return &health.Probe{Exec: &health.ExecProbe{Command: "false"}, PeriodSeconds: 5}
		case 3:
			return &health.Probe{HttpGet: &health.HttpProbe{Host: "h", Port: "80", Scheme: "http", Path: "/"}, PeriodSeconds: 5}
		case 4:
			return &health.Probe{HttpGet: &health.HttpProbe{Host: "h", Port: "81", Scheme: "http", Path: "/"}, PeriodSeconds: 5}
		case 5:
			return &health.Probe{Exec: &health.ExecProbe{Command: "true"}, PeriodSeconds: 7}
		case 6:
			return &health.Probe{Exec: &health.ExecProbe{Command: "true"}, HttpGet: &health.HttpProbe{Host: "h", Port: "80", Scheme: "http", Path: "/"}, PeriodSeconds: 5}
		case 7:
			return &health.Probe{Exec: &health.ExecProbe{Command: "true", WorkingDir: "/"}, PeriodSeconds: 5}
		}
		return nil
	}
	switch group {
	case "rp":
		if k > 7 {
			return false
		}
		pc.ReadinessProbe = probe(k)
	case "lp":
		if k > 7 {
			return false
		}
		pc.LivenessProbe = probe(k)
	case "sd":
		l := []types.ShutDownParams{{}, {ShutDownCommand: "true"}, {ShutDownTimeout: 3}, {Signal: 2}, {ParentOnly: true}}
		if k >= len(l) {
			return false
		}
		pc.ShutDownParams = l[k]
	case "rs":
		l := []types.RestartPolicyConfig{{}, {Restart: types.RestartPolicyAlways}, {Restart: types.RestartPolicyAlways, BackoffSeconds: 2},
			{Restart: types.RestartPolicyAlways, MaxRestarts: 2}, {ExitOnEnd: true}}
		if k >= len(l) {
			return false
		}
		pc.RestartPolicy = l[k]
	case "dep":
		l := []types.DependsOnConfig{{}, {"o": {Condition: types.ProcessConditionCompleted}}, {"o": {Condition: types.ProcessConditionStarted}},
			{"o2": {Condition: types.ProcessConditionCompleted}}}
		if k >= len(l) {
			return false
		}
		pc.DependsOn = l[k]
	case "env":
		l := []types.Environment{nil, {"A=1"}, {"A=2"}, {"A=1", "B=1"}}
		if k >= len(l) {
			return false
		}
		pc.Environment = l[k]
	default:
		return false
	}
	return true
}

func fieldNames() []string {
	t := reflect.TypeOf(types.ProcessConfig{})
	l := []string{}
	for i := 0; i < t.NumField(); i++ {
		l = append(l, t.Field(i).Name)
	}
	return l
}

func parseSpec(s string) [][2]string {
	var out [][2]string
	if s == "-" {
		return out
	}
	for _, e := range strings.Split(s, ",") {
		p := strings.SplitN(e, ":", 2)
		if len(p) == 2 {
			out = append(out, [2]string{p[0], p[1]})
		}
	}
	return out
}

func buildProject(spec [][2]string) *types.Project {
	procs := types.Processes{}
	for _, e := range spec {
		pc := baseConf(e[0])
		if e[1] != "-" {
			mutate(&pc, e[1])
			// as the loader does: executable and arguments follow from the command
			pc.AssignProcessExecutableAndArgs(command.DefaultShellConfig(), "")
		}
		procs[e[0]] = pc
	}
	return &types.Project{Processes: procs, LogLength: 100, ShellConfig: command.DefaultShellConfig()}
}

func (c *updateC) dump(status map[string]string) string {
	r := c.sc.h.r
	sts := []string{}
	for n, v := range status {
		sts = append(sts, n+":"+v)
	}
	sort.Strings(sts)
	names := []string{}
	for n := range r.VerifProject().Processes {
		names = append(names, n)
	}
	sort.Strings(names)
	// which live instance runs each process: kept from before this operation (k) or launched by it (n)
	cur := map[string]int{}
	for i, fc := range c.sc.h.cmds {
		if fc.alive {
			cur[fc.name] = i
		}
	}
	inst := []string{}
	for n, i := range cur {
		if j, ok := c.prev[n]; ok && j == i {
			inst = append(inst, n+":k")
		} else {
			inst = append(inst, n+":n")
		}
	}
	sort.Strings(inst)
	c.prev = cur
	return fmt.Sprintf("status=[%s] names=[%s] launches=%d stops=%d inst=[%s]", strings.Join(sts, ","), strings.Join(names, ","),
		len(c.sc.h.cmds), len(c.sc.h.stopLog), strings.Join(inst, ","))
}

func (c *updateC) Exec(op string) string {
	w := strings.Fields(op)
	return Safe(func() string {
		switch {
		case len(w) == 2 && w[0] == "cmp":
			a := baseConf("p")
			b := baseConf("p")
			if !mutate(&b, w[1]) {
				return "no-such-field"
			}
			return fmt.Sprintf("%v", a.Compare(&b))
		case len(w) == 4 && w[0] == "cmpv":
			x, e1 := strconv.Atoi(w[2])
			y, e2 := strconv.Atoi(w[3])
			a := baseConf("p")
			b := baseConf("p")
			if e1 != nil || e2 != nil || x < 0 || y < 0 || !variant(&a, w[1], x) || !variant(&b, w[1], y) {
				return "bad-op"
			}
			return fmt.Sprintf("%v", a.Compare(&b))
		case len(w) == 2 && w[0] == "upvar" && (w[1] == "0" || w[1] == "1"):
			// a project loaded from a file: `p` renders a project-level variable into its command, `q` does
			// not; the project is then updated from the same file with (1) or without (0) a new value of
			// that variable - the definition text of `p` is the same, its rendered command is not
			dir, _ := os.MkdirTemp("", "pcupvar")
			defer os.RemoveAll(dir)
			yml := func(g string) string {
				return "vars:\n  G: \"" + g + "\"\nprocesses:\n  p:\n    command: \"run {{.G}}\"\n  q:\n    command: \"run fixed\"\n"
			}
			load := func(g string) (*types.Project, error) {
				f := filepath.Join(dir, "pc.yaml")
				_ = os.WriteFile(f, []byte(yml(g)), 0o644)
				return loader.Load(&loader.LoaderOptions{FileNames: []string{f}, IsInternalLoader: true})
			}
			c.sc = &scaleC{h: &supH{}}
			c.sc.h.reset("coarse", false)
			c.prev = map[string]int{}
			prj, err := load("one")
			if err != nil {
				return "load-error"
			}
			r, err := app.NewProjectRunner((&app.ProjectOpts{}).WithProject(prj).WithIsTuiOn(true))
			if err != nil {
				return "runner-error"
			}
			c.sc.h.r = r
			if err := verif.S.Go("api", "main", func() { _ = r.Run() }); err != nil {
				return "DIVERGED"
			}
			if q := c.sc.quiesce(); q != "" {
				return q
			}
			verif.S.TakeLog()
			_ = c.dump(nil)
			g2 := "one"
			if w[1] == "1" {
				g2 = "two"
			}
			prj2, err := load(g2)
			if err != nil {
				return "load-error"
			}
			var status map[string]string
			if err := verif.S.Go("api", "u1", func() { status, _ = r.UpdateProject(prj2) }); err != nil {
				return "DIVERGED"
			}
			if q := c.sc.quiesce(); q != "" {
				return q
			}
			verif.S.TakeLog()
			args := ""
			if pc, ok := r.VerifProject().Processes["p"]; ok {
				args = strings.ReplaceAll(pc.Command, " ", "_")
			}
			return c.dump(status) + " cmd=" + args
		case len(w) == 2 && w[0] == "upinit":
			c.sc = &scaleC{h: &supH{}}
			c.sc.h.reset("coarse", false)
			c.prev = map[string]int{}
			prj := buildProject(parseSpec(w[1]))
			r, err := app.NewProjectRunner((&app.ProjectOpts{}).WithProject(prj).WithIsTuiOn(true))
			if err != nil {
				return "runner-error"
			}
			c.sc.h.r = r
			if err := verif.S.Go("api", "main", func() { _ = r.Run() }); err != nil {
				return "DIVERGED"
			}
			if q := c.sc.quiesce(); q != "" {
				return q
			}
			verif.S.TakeLog()
			return c.dump(nil)
		case len(w) == 2 && w[0] == "update":
			if c.sc == nil || c.sc.h.dead {
				return "DEAD"
			}
			prj := buildProject(parseSpec(w[1]))
			r := c.sc.h.r
			var status map[string]string
			c.sc.launches++
			if err := verif.S.Go("api", fmt.Sprintf("u%d", c.sc.launches), func() {
				status, _ = r.UpdateProject(prj)
			}); err != nil {
				return "DIVERGED"
			}
			if q := c.sc.quiesce(); q != "" {
				return q
			}
			verif.S.TakeLog()
			return c.dump(status)
		}
		return "bad-op"
	})
}

func (c *updateC) Gen(r *rand.Rand, tier string, emit func(string)) {
	for _, f := range fieldNames() {
		emit("cmp " + f)
	}
	emit("upvar 1")
	emit("upvar 0")
	for g, n := range map[string]int{"rp": 8, "lp": 8, "sd": 5, "rs": 5, "dep": 4, "env": 4} {
		for x := 0; x < n; x++ {
			for y := 0; y < n; y++ {
				emit(fmt.Sprintf("cmpv %s %d %d", g, x, y))
			}
		}
	}
	safe := []string{"Command", "Description", "Namespace", "ReadyLogLine", "Environment", "Vars", "LaunchTimeout",
		"OriginalConfig", "DisableAnsiColors", "ShutDownParams", "RestartPolicy", "Extensions", "ReplicaNum"}
	names := []string{"a", "b", "c", "d", "e"}
	hist := 30
	if tier == "thorough" {
		hist = 600
	}
	mk := func() string {
		parts := []string{}
		for _, n := range names {
			if r.Intn(3) > 0 {
				f := "-"
				if r.Intn(2) == 0 {
					f = safe[r.Intn(len(safe))]
				}
				parts = append(parts, n+":"+f)
			}
		}
		if len(parts) == 0 {
			return "-"
		}
		return strings.Join(parts, ",")
	}
	for k := 0; k < hist; k++ {
		emit("upinit " + mk())
		for i := 0; i < 1+r.Intn(4); i++ {
			emit("update " + mk())
		}
	}
}
