package comp

import (
	"fmt"
	"math/rand"
	"os"
	"path/filepath"
	"sort"
	"strconv"
	"strings"

	"github.com/f1bonacc1/process-compose/src/admitter"
	"github.com/f1bonacc1/process-compose/src/app"
	"github.com/f1bonacc1/process-compose/src/loader"
	"github.com/f1bonacc1/process-compose/src/verif"
	"gopkg.in/yaml.v2"
)

// plan: loader.Load (cycle / undefined-dependency validation, namespace admission),
// NewProjectRunner (selection with and without dependencies), GetDependenciesOrderNames and Run()
// under the scheduler with fake commands (which processes are launched).
type planC struct {
	dir string
	sc  scaleC
}

func init() { Register("plan", func() Component { return &planC{} }) }

func planList(s string) []string {
	if s == "~" {
		return nil
	}
	return strings.Split(s, ",")
}

func (c *planC) Exec(op string) string {
	w := strings.Fields(op)
	if len(w) != 5 || w[0] != "plan" {
		return "bad-op"
	}
	pm := map[string]interface{}{}
	if w[1] != "~" {
		for _, e := range strings.Split(w[1], "|") {
			f := strings.Split(e, ";")
			if len(f) != 5 {
				return "bad-op"
			}
			rep, err := strconv.Atoi(f[1])
			if err != nil {
				return "bad-op"
			}
			m := map[string]interface{}{"command": "fake " + f[0], "namespace": f[4]}
			if rep != 0 {
				m["replicas"] = rep
			}
			if deps := planList(f[2]); len(deps) > 0 {
				d := map[string]interface{}{}
				for _, n := range deps {
					d[n] = map[string]interface{}{"condition": "process_started"}
				}
				m["depends_on"] = d
			}
			if strings.Contains(f[3], "f") {
				m["is_foreground"] = true
			}
			if strings.Contains(f[3], "d") {
				m["disabled"] = true
			}
			pm[f[0]] = m
		}
	}
	y, _ := yaml.Marshal(map[string]interface{}{"processes": pm})
	if c.dir == "" {
		c.dir, _ = os.MkdirTemp("", "pcplan")
	}
	file := filepath.Join(c.dir, "pc.yaml")
	_ = os.WriteFile(file, y, 0o644)
	res := ""
	// several loads: the verdict must not depend on the map iteration order
	for i := 0; i < 5; i++ {
		r := c.once(file, planList(w[2]), w[3] == "1", planList(w[4]), i == 0)
		if i == 0 {
			res = r
		} else if strings.Split(r, " order=")[0] != strings.Split(res, " order=")[0] {
			return "NONDET " + res + " / " + r
		}
	}
	return res
}

func (c *planC) once(file string, req []string, noDeps bool, nss []string, run bool) string {
	opts := &loader.LoaderOptions{FileNames: []string{file}, IsInternalLoader: true}
	if len(nss) > 0 {
		opts.AddAdmitter(&admitter.NamespaceAdmitter{EnabledNamespaces: nss})
	}
	prj, err := loader.Load(opts)
	if err != nil {
		switch {
		case strings.Contains(err.Error(), "circular"):
			return "err:cycle"
		case strings.Contains(err.Error(), "is not defined"):
			return "err:undefined"
		}
		return "err:other:" + strings.ReplaceAll(err.Error(), " ", "_")
	}
	c.sc.h = &supH{}
	c.sc.h.reset("coarse", false)
	popts := (&app.ProjectOpts{}).WithProject(prj).WithIsTuiOn(true).WithProcessesToRun(req).WithNoDeps(noDeps)
	r, err := app.NewProjectRunner(popts)
	if err != nil {
		return "selerr"
	}
	c.sc.h.r = r
	enabled := []string{}
	for k, pc := range r.VerifProject().Processes {
		if !pc.Disabled {
			enabled = append(enabled, k)
		}
	}
	sort.Strings(enabled)
	order, err := r.GetDependenciesOrderNames()
	if err != nil {
		return "runerr"
	}
	launched := []string{}
	if run {
		var runErr error
		if err := verif.S.Go("api", "main", func() { runErr = r.Run() }); err != nil {
			return "DIVERGED"
		}
		if q := c.sc.quiesce(); q != "" {
			return q
		}
		_ = runErr
		for _, fc := range c.sc.h.cmds {
			launched = append(launched, fc.name)
		}
		sort.Strings(launched)
		verif.S.TakeLog()
	} else {
		launched = append(launched, order...)
		sort.Strings(launched)
	}
	return fmt.Sprintf("enabled=[%s] launched=[%s] order=[%s]", strings.Join(enabled, ","), strings.Join(launched, ","), strings.Join(order, ","))
}

func genPlan(r *rand.Rand, n int, dense int, emit func(string)) {
	names := []string{"a", "b", "c", "d", "e", "f", "g", "h", "i", "j", "k", "l"}[:n]
	reps := make([]int, n)
	for i := range reps {
		reps[i] = []int{0, 1, 1, 1, 2, 3}[r.Intn(6)]
	}
	keysOf := func(i int) []string {
		if reps[i] <= 1 {
			return []string{names[i]}
		}
		l := []string{}
		for k := 0; k < reps[i]; k++ {
			l = append(l, fmt.Sprintf("%s-%d", names[i], k))
		}
		return l
	}
	ps := []string{}
	for i := 0; i < n; i++ {
		deps := []string{}
		for j := 0; j < n; j++ {
			if r.Intn(100) < dense {
				// mostly forward edges (acyclic), some back edges and self loops
				if j < i || r.Intn(6) == 0 {
					ks := keysOf(j)
					switch r.Intn(8) {
					case 0:
						deps = append(deps, names[j]) // the process name (stands for its replicas)
					default:
						deps = append(deps, ks[r.Intn(len(ks))])
					}
				}
			}
		}
		if r.Intn(25) == 0 {
			deps = append(deps, "nosuch")
		}
		seen := map[string]bool{}
		ud := []string{}
		for _, d := range deps {
			if !seen[d] {
				seen[d] = true
				ud = append(ud, d)
			}
		}
		flags := ""
		if r.Intn(7) == 0 {
			flags += "f"
		}
		if r.Intn(7) == 0 {
			flags += "d"
		}
		if flags == "" {
			flags = "-"
		}
		ds := "~"
		if len(ud) > 0 {
			ds = strings.Join(ud, ",")
		}
		ps = append(ps, fmt.Sprintf("%s;%d;%s;%s;%s", names[i], reps[i], ds, flags, []string{"default", "default", "ns1"}[r.Intn(3)]))
	}
	req := "~"
	if r.Intn(2) == 0 {
		l := []string{}
		for i := 0; i < n; i++ {
			if r.Intn(3) == 0 {
				ks := keysOf(i)
				if r.Intn(2) == 0 {
					l = append(l, names[i])
				} else {
					l = append(l, ks[r.Intn(len(ks))])
				}
			}
		}
		if r.Intn(15) == 0 {
			l = append(l, "unknown")
		}
		if len(l) > 0 {
			req = strings.Join(l, ",")
		}
	}
	nss := []string{"~", "~", "~", "default", "ns1", "default,ns1"}[r.Intn(6)]
	emit(fmt.Sprintf("plan %s %s %d %s", strings.Join(ps, "|"), req, r.Intn(4)/3, nss))
}

func (c *planC) Gen(r *rand.Rand, tier string, emit func(string)) {
	n := 250
	if tier == "thorough" {
		n = 6000
		// every digraph on 3 nodes (self loops included), single replicas, nothing selected
		for g := 0; g < 512; g++ {
			ps := []string{}
			for i := 0; i < 3; i++ {
				deps := []string{}
				for j := 0; j < 3; j++ {
					if g&(1<<(i*3+j)) != 0 {
						deps = append(deps, []string{"a", "b", "c"}[j])
					}
				}
				ds := "~"
				if len(deps) > 0 {
					ds = strings.Join(deps, ",")
				}
				ps = append(ps, fmt.Sprintf("%s;1;%s;-;default", []string{"a", "b", "c"}[i], ds))
			}
			emit(fmt.Sprintf("plan %s ~ 0 ~", strings.Join(ps, "|")))
		}
	}
	for i := 0; i < n; i++ {
		genPlan(r, 2+r.Intn(7), []int{15, 30, 50}[r.Intn(3)], emit)
	}
}
