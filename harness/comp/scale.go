package comp

import (
	"fmt"
	"math/rand"
	"os"
	"path/filepath"
	"sort"
	"strconv"
	"strings"

	"github.com/f1bonacc1/process-compose/src/app"
	"github.com/f1bonacc1/process-compose/src/loader"
	"github.com/f1bonacc1/process-compose/src/types"
	"github.com/f1bonacc1/process-compose/src/verif"
)

// replica: ProcessConfig.CalculateReplicaName.
type replicaC struct{}

// scale: ProjectRunner.ScaleProcess on a loaded project (process "w" with replicas, process "o"),
// real runner under the cooperative scheduler with fake commands, run to quiescence after each call.
type scaleC struct {
	h        *supH
	dir      string
	launches int
	stops    int
	g        [][2]string // the project as loaded by the last scinit (for project updates)
	pw, po   *lProc
}

func init() {
	Register("replica", func() Component { return &replicaC{} })
	Register("scale", func() Component { return &scaleC{} })
}

func (c *replicaC) Exec(op string) string {
	w := strings.Fields(op)
	if len(w) != 4 || w[0] != "name" {
		return "bad-op"
	}
	b, ok := UnHex(w[1])
	r, e1 := strconv.Atoi(w[2])
	n, e2 := strconv.Atoi(w[3])
	if !ok || e1 != nil || e2 != nil {
		return "bad-op"
	}
	pc := types.ProcessConfig{Name: b, Replicas: r, ReplicaNum: n}
	return Hex(pc.CalculateReplicaName())
}

func (c *replicaC) Gen(r *rand.Rand, tier string, emit func(string)) {
	max := 1200
	if tier == "thorough" {
		max = 100000
	}
	for rep := -1; rep <= max; rep++ {
		nums := []int{0, 1, rep / 2, rep - 1}
		if rep <= 12 {
			nums = nil
			for i := 0; i < rep+1 || i < 2; i++ {
				nums = append(nums, i)
			}
		}
		for _, n := range nums {
			if n < 0 {
				continue
			}
			emit(fmt.Sprintf("name %s %d %d", Hex("web"), rep, n))
		}
	}
	for _, rep := range []int{9, 10, 11, 99, 100, 101, 999, 1000, 1001, 9999, 10000, 10001, 99999, 100000, 999999, 1000000, 9999999, 10000000, 99999999, 100000000, 999999999, 1000000000} {
		for _, n := range []int{0, 7, rep - 1} {
			emit(fmt.Sprintf("name %s %d %d", Hex("p-x"), rep, n))
		}
	}
}

func (c *scaleC) quiesce() string {
	for i := 0; i < 5000; i++ {
		en := verif.S.Enabled()
		if len(en) == 0 {
			return ""
		}
		c.h.cur = en[0]
		if err := verif.S.Step(en[0]); err != nil {
			c.h.dead = true
			f := fmt.Sprintf("%s/pc-divergence-%d.txt", os.TempDir(), os.Getpid())
			_ = os.WriteFile(f, []byte(verif.S.Dump()), 0o644)
			return "DIVERGED dump=" + f
		}
	}
	return "LIVELOCK"
}

func sortedJoin(l []string) string {
	sort.Strings(l)
	return "[" + strings.Join(l, ",") + "]"
}

func (c *scaleC) dump(ret string) string {
	r := c.h.r
	proj := []string{}
	info := []string{}
	for n := range r.VerifProject().Processes {
		proj = append(proj, n)
		if pc, err := r.GetProcessInfo(n); err == nil {
			info = append(info, ShowReplica(pc))
		}
	}
	alive := 0
	launches := 0
	stops := 0
	for _, fc := range c.h.cmds {
		launches++
		if fc.alive {
			alive++
		}
	}
	for _, o := range c.h.stopLog {
		_ = o
		stops++
	}
	// what a client sees: the names inside the reported states, and the state found under each key
	snames := []string{}
	reported := []string{}
	if sts, err := r.GetProcessesState(); err == nil {
		for _, st := range sts.States {
			snames = append(snames, st.Name)
			ir := 0
			if st.IsRunning {
				ir = 1
			}
			reported = append(reported, fmt.Sprintf("%s:%s:%d", st.Name, st.Status, ir))
		}
	}
	for _, k := range r.VerifStateNames() {
		if st, err := r.GetProcessState(k); err != nil || st.Name != k {
			snames = append(snames, "MISMATCH:"+k)
		}
	}
	return fmt.Sprintf("ret=%s proj=%s states=%s snames=%s logs=%s run=%s info=%s alive=%d launches=%d stops=%d rep=%s", ret,
		sortedJoin(proj), sortedJoin(r.VerifStateNames()), sortedJoin(snames), sortedJoin(r.VerifLogNames()), sortedJoin(r.VerifRunningNamesNoLock()),
		sortedJoin(info), alive, launches, stops, sortedJoin(reported))
}

func (c *scaleC) Exec(op string) string {
	w := strings.Fields(op)
	switch {
	case len(w) == 4 && w[0] == "scinit":
		g, ok0 := parseLVars(w[1])
		pw, ok1 := parseLProc(w[2])
		po, ok2 := parseLProc(w[3])
		if !ok0 || !ok1 || !ok2 {
			return "bad-op"
		}
		// gate scenarios: every replica of `w` waits (process_completed) for `o`, whose command is "gate"
		if po.cmd == "gate" {
			pw.deps = []string{"o"}
		}
		yml, ok := ProjectYAML(g, []*lProc{pw, po})
		if !ok {
			return "bad-op"
		}
		c.g, c.pw, c.po = g, pw, po
		c.h = &supH{}
		c.h.reset("coarse", false)
		if c.dir == "" {
			c.dir, _ = os.MkdirTemp("", "pcscale")
		}
		f := filepath.Join(c.dir, "pc.yaml")
		_ = os.WriteFile(f, yml, 0o644)
		prj, err := loader.Load(&loader.LoaderOptions{FileNames: []string{f}, IsInternalLoader: true})
		if err != nil {
			return "load-error"
		}
		opts := (&app.ProjectOpts{}).WithProject(prj).WithIsTuiOn(true)
		r, err := app.NewProjectRunner(opts)
		if err != nil {
			return "runner-error"
		}
		c.h.r = r
		if err := verif.S.Go("api", "main", func() { _ = r.Run() }); err != nil {
			return "DIVERGED"
		}
		if q := c.quiesce(); q != "" {
			return q
		}
		verif.S.TakeLog()
		return c.dump("ok")
	case len(w) == 2 && w[0] == "sexit":
		// the command of the replica currently called <name> exits by itself with code 0
		if c.h == nil || c.h.dead {
			return "DEAD"
		}
		target, ok := UnHex(w[1])
		if !ok {
			return "bad-op"
		}
		for _, fc := range c.h.cmds {
			if fc.alive && fc.conf != nil && fc.conf.ReplicaName == target {
				fc.exit(0)
				break
			}
		}
		if q := c.quiesce(); q != "" {
			return q
		}
		verif.S.TakeLog()
		return c.dump("ok")
	case len(w) == 1 && w[0] == "gexit":
		// the gate's command exits: the replicas waiting for it are released
		if c.h == nil || c.h.dead {
			return "DEAD"
		}
		for _, fc := range c.h.cmds {
			if fc.alive && fc.conf != nil && fc.conf.ReplicaName == "o" {
				fc.exit(0)
				break
			}
		}
		if q := c.quiesce(); q != "" {
			return q
		}
		verif.S.TakeLog()
		return c.dump("ok")
	case len(w) == 2 && w[0] == "scupd":
		// the project file is edited (replica count of `w`) and the running project updated from it
		if c.h == nil || c.h.dead || c.pw == nil {
			return "DEAD"
		}
		n, err := strconv.Atoi(w[1])
		if err != nil || n < 1 {
			return "bad-op"
		}
		np := *c.pw
		np.replicas = n
		yml, ok := ProjectYAML(c.g, []*lProc{&np, c.po})
		if !ok {
			return "bad-op"
		}
		f := filepath.Join(c.dir, "pc-upd.yaml")
		_ = os.WriteFile(f, yml, 0o644)
		prj, lerr := loader.Load(&loader.LoaderOptions{FileNames: []string{f}, IsInternalLoader: true})
		if lerr != nil {
			return "load-error"
		}
		r := c.h.r
		ret := "?"
		if err := verif.S.Go("api", fmt.Sprintf("u%d", len(c.h.stopLog)+c.launches), func() {
			defer func() {
				if e := recover(); e != nil {
					ret = "panic"
				}
			}()
			if _, e := r.UpdateProject(prj); e == nil {
				ret = "ok"
			} else {
				ret = "other"
			}
		}); err != nil {
			return "DIVERGED"
		}
		c.launches++
		if q := c.quiesce(); q != "" {
			return q
		}
		verif.S.TakeLog()
		c.pw = &np
		return c.dump(ret)
	case len(w) == 3 && w[0] == "scale":
		if c.h == nil || c.h.dead {
			return "DEAD"
		}
		target, ok := UnHex(w[1])
		n, err := strconv.Atoi(w[2])
		if !ok || err != nil {
			return "bad-op"
		}
		if target == "o" {
			return "skip"
		}
		r := c.h.r
		ret := "?"
		if err := verif.S.Go("api", fmt.Sprintf("s%d", len(c.h.stopLog)+c.launches), func() {
			defer func() {
				if e := recover(); e != nil {
					ret = "panic"
				}
			}()
			e := r.ScaleProcess(target, n)
			switch {
			case e == nil:
				ret = "ok"
			case strings.Contains(e.Error(), "negative or zero"):
				ret = "bad-scale"
			case strings.Contains(e.Error(), "no such process"):
				ret = "no-such"
			default:
				ret = "other"
			}
		}); err != nil {
			return "DIVERGED"
		}
		c.launches++
		if q := c.quiesce(); q != "" {
			return q
		}
		verif.S.TakeLog()
		return c.dump(ret)
	}
	return "bad-op"
}

// genGate: scale requests and project updates while every replica of `w` is still Pending (it waits
// for `o`); then the gate opens: exactly the replicas that exist then are launched, once each, and
// none of those removed in the meantime.
func (c *scaleC) genGate(r *rand.Rand, n int, emit func(string)) {
	for k := 0; k < n; k++ {
		start := []int{1, 2, 3, 9, 10, 11}[r.Intn(6)]
		g := genLVars(r, []string{"V", "G"})
		pw := strings.Join([]string{"w", strconv.Itoa(start), Hex([]string{"", "ns1"}[r.Intn(2)]), "0",
			Hex("run {{.PC_REPLICA_NUM}} " + genTpl(r, true)), "-", "-", Hex(genTpl(r, true)), "~", "~", genLVars(r, []string{"V", "L"})}, ";")
		po := "o;0;-;0;" + Hex("gate") + ";-;-;-;~;~;~"
		emit(fmt.Sprintf("scinit %s %s %s", g, pw, po))
		cur := start
		steps := 1 + r.Intn(4)
		for i := 0; i < steps; i++ {
			pc := types.ProcessConfig{Name: "w", Replicas: cur, ReplicaNum: r.Intn(cur)}
			if r.Intn(5) == 0 {
				nn := 1 + r.Intn(4)
				emit(fmt.Sprintf("scupd %d", nn))
				cur = nn
				continue
			}
			nn := []int{1, 2, 3, 5, 9, 10, 11, 12}[r.Intn(8)]
			emit(fmt.Sprintf("scale %s %d", Hex(pc.CalculateReplicaName()), nn))
			cur = nn
		}
		emit("gexit")
		// and on after the gate has opened
		pc := types.ProcessConfig{Name: "w", Replicas: cur, ReplicaNum: 0}
		emit(fmt.Sprintf("scale %s %d", Hex(pc.CalculateReplicaName()), 1+r.Intn(12)))
	}
}

func (c *scaleC) Gen(r *rand.Rand, tier string, emit func(string)) {
	hist := 25
	if tier == "thorough" {
		hist = 400
	}
	c.genGate(r, hist/3+2, emit)
	for k := 0; k < hist; k++ {
		start := []int{1, 1, 2, 3, 9, 10, 11}[r.Intn(7)]
		g := genLVars(r, []string{"V", "G"})
		pw := strings.Join([]string{"w", strconv.Itoa(start), Hex([]string{"", "ns1"}[r.Intn(2)]), strconv.Itoa([]int{0, 7}[r.Intn(2)]),
			Hex("run {{.PC_REPLICA_NUM}} " + genTpl(r, true)), "-", "-", Hex(genTpl(r, true)), "~", "~", genLVars(r, []string{"V", "L", "PORT"})}, ";")
		po := "o;0;-;0;" + Hex("other") + ";-;-;-;~;~;~"
		emit(fmt.Sprintf("scinit %s %s %s", g, pw, po))
		cur := start
		steps := 2 + r.Intn(6)
		for i := 0; i < steps; i++ {
			var n int
			switch r.Intn(10) {
			case 0:
				n = 0
			case 1:
				n = -2
			case 2:
				n = cur
			case 3:
				n = []int{9, 10, 11}[r.Intn(3)]
			case 4:
				if tier == "thorough" {
					n = []int{99, 100, 101}[r.Intn(3)]
				} else {
					n = 12
				}
			default:
				n = 1 + r.Intn(13)
			}
			// address the process by one of its current replica names, the base name, or an unknown name
			var target string
			x := r.Intn(10)
			pc := types.ProcessConfig{Name: "w", Replicas: cur, ReplicaNum: r.Intn(cur)}
			switch {
			case x < 7:
				target = pc.CalculateReplicaName()
			case x < 8:
				target = "w"
			case x < 9:
				target = "nosuch"
			default:
				target = "w-99"
			}
			if r.Intn(5) == 0 {
				// the project file is edited and the project updated from it
				nn := 1 + r.Intn(4)
				emit(fmt.Sprintf("scupd %d", nn))
				cur = nn
				continue
			}
			if r.Intn(3) == 0 {
				// a replica finishes by itself before the scale request
				pe := types.ProcessConfig{Name: "w", Replicas: cur, ReplicaNum: r.Intn(cur)}
				emit(fmt.Sprintf("sexit %s", Hex(pe.CalculateReplicaName())))
			}
			emit(fmt.Sprintf("scale %s %d", Hex(target), n))
			valid := n >= 1 && (target == pc.CalculateReplicaName() || (target == "w" && cur == 1))
			if valid {
				cur = n
			}
		}
	}
}
