package comp

import (
	"fmt"
	"math/rand"
	"os"
	"path/filepath"
	"sort"
	"strconv"
	"strings"

	"github.com/f1bonacc1/process-compose/src/health"
	"github.com/f1bonacc1/process-compose/src/loader"
	"github.com/f1bonacc1/process-compose/src/types"
	"gopkg.in/yaml.v2"
)

// load: loader.Load on a generated project with templates in every renderable field; each file is
// loaded several times (fresh maps, different iteration orders) and the dumps are compared.
type loadC struct {
	dir string
}

func init() { Register("load", func() Component { return &loadC{} }) }

type lProc struct {
	name                   string
	replicas, lt           int
	ns, cmd, wd, log, desc string
	rp, lp                 string // encoded probe
	vars                   [][2]string
	deps                   []string // process_completed dependencies (set by the scale scenarios, not part of the op encoding)
}

func parseLVars(s string) ([][2]string, bool) {
	if s == "~" {
		return nil, true
	}
	out := [][2]string{}
	for _, e := range strings.Split(s, ",") {
		kv := strings.Split(e, "=")
		if len(kv) != 2 {
			return nil, false
		}
		v, ok := UnHex(kv[1])
		if !ok {
			return nil, false
		}
		out = append(out, [2]string{kv[0], v})
	}
	return out, true
}

// varValue: digit strings become YAML integers (as a user would write them)
func varValue(v string) interface{} {
	if n, err := strconv.Atoi(v); err == nil && strconv.Itoa(n) == v {
		return n
	}
	return v
}

func probeYAML(enc string) (map[string]interface{}, bool) {
	if enc == "~" {
		return nil, true
	}
	f := strings.Split(enc, "/")
	un := func(i int) string { s, _ := UnHex(f[i]); return s }
	switch {
	case f[0] == "e" && len(f) == 3:
		e := map[string]interface{}{"command": un(1)}
		if un(2) != "" {
			e["working_dir"] = un(2)
		}
		return map[string]interface{}{"exec": e, "initial_delay_seconds": 36000}, true
	case f[0] == "h" && len(f) == 5:
		h := map[string]interface{}{}
		for i, k := range []string{"host", "path", "scheme", "port"} {
			if un(i+1) != "" {
				h[k] = un(i + 1)
			}
		}
		return map[string]interface{}{"http_get": h, "initial_delay_seconds": 36000}, true
	}
	return nil, false
}

func showProbeR(p *health.Probe) string {
	switch {
	case p == nil:
		return "~"
	case p.Exec != nil:
		return "e/" + Hex(p.Exec.Command) + "/" + Hex(p.Exec.WorkingDir)
	case p.HttpGet != nil:
		h := p.HttpGet
		return fmt.Sprintf("h/%s/%s/%s/%s/%d", Hex(h.Host), Hex(h.Path), Hex(h.Scheme), Hex(h.Port), h.NumPort)
	}
	return "?"
}

func showVarsR(v types.Vars) string {
	if len(v) == 0 {
		return "~"
	}
	l := []string{}
	for k, x := range v {
		e := k + "=" + Hex(fmt.Sprint(x))
		if k == "PC_REPLICA_NUM" {
			// the injected replica number is a number (templates compare and format it as one)
			if _, ok := x.(int); ok {
				e += "#int"
			} else {
				e += fmt.Sprintf("#%T", x)
			}
		}
		l = append(l, e)
	}
	sort.Strings(l)
	return strings.Join(l, ",")
}

func ShowReplica(pc *types.ProcessConfig) string {
	return strings.Join([]string{pc.ReplicaName, pc.Name, strconv.Itoa(pc.ReplicaNum), strconv.Itoa(pc.Replicas), Hex(pc.Namespace),
		strconv.Itoa(pc.LaunchTimeout), Hex(pc.Command), Hex(pc.WorkingDir), Hex(pc.LogLocation), Hex(pc.Description),
		showProbeR(pc.ReadinessProbe), showProbeR(pc.LivenessProbe), showVarsR(pc.Vars)}, ";")
}

func showLoaded(p *types.Project) string {
	l := []string{}
	for key, pc := range p.Processes {
		pc := pc
		s := ShowReplica(&pc)
		if key != pc.ReplicaName {
			s = "KEY(" + key + ")" + s
		}
		l = append(l, s)
	}
	if len(l) == 0 {
		return "~"
	}
	sort.Strings(l)
	return strings.Join(l, "|")
}

func parseLProc(s string) (*lProc, bool) {
	f := strings.Split(s, ";")
	if len(f) != 11 {
		return nil, false
	}
	p := &lProc{name: f[0]}
	var e1, e2 error
	p.replicas, e1 = strconv.Atoi(f[1])
	p.lt, e2 = strconv.Atoi(f[3])
	if e1 != nil || e2 != nil {
		return nil, false
	}
	ok := true
	un := func(h string) string {
		s, o := UnHex(h)
		ok = ok && o
		return s
	}
	p.ns, p.cmd, p.wd, p.log, p.desc = un(f[2]), un(f[4]), un(f[5]), un(f[6]), un(f[7])
	p.rp, p.lp = f[8], f[9]
	var ok2 bool
	p.vars, ok2 = parseLVars(f[10])
	return p, ok && ok2
}

// ProjectYAML renders the project through the repository's YAML library.
func ProjectYAML(g [][2]string, procs []*lProc) ([]byte, bool) {
	doc := map[string]interface{}{}
	if len(g) > 0 {
		gv := map[string]interface{}{}
		for _, kv := range g {
			gv[kv[0]] = varValue(kv[1])
		}
		doc["vars"] = gv
	}
	pm := map[string]interface{}{}
	for _, p := range procs {
		m := map[string]interface{}{}
		if p.replicas != 0 {
			m["replicas"] = p.replicas
		}
		if p.lt != 0 {
			m["launch_timeout_seconds"] = p.lt
		}
		for k, v := range map[string]string{"namespace": p.ns, "command": p.cmd, "working_dir": p.wd, "log_location": p.log, "description": p.desc} {
			if v != "" {
				m[k] = v
			}
		}
		// by convention of this harness a process whose name ends in "_off" is declared `disabled: true`
		// (it is not started with the project but can be started by name later: it is loaded like any other)
		if strings.HasSuffix(p.name, "_off") {
			m["disabled"] = true
		}
		rp, ok1 := probeYAML(p.rp)
		lp, ok2 := probeYAML(p.lp)
		if !ok1 || !ok2 {
			return nil, false
		}
		if rp != nil {
			m["readiness_probe"] = rp
		}
		if lp != nil {
			m["liveness_probe"] = lp
		}
		if len(p.deps) > 0 {
			dm := map[string]interface{}{}
			for _, d := range p.deps {
				dm[d] = map[string]interface{}{"condition": "process_completed"}
			}
			m["depends_on"] = dm
		}
		if len(p.vars) > 0 {
			vm := map[string]interface{}{}
			for _, kv := range p.vars {
				vm[kv[0]] = varValue(kv[1])
			}
			m["vars"] = vm
		}
		pm[p.name] = m
	}
	doc["processes"] = pm
	b, err := yaml.Marshal(doc)
	return b, err == nil
}

func (c *loadC) Exec(op string) string {
	w := strings.Fields(op)
	if len(w) < 2 || w[0] != "ld" {
		return "bad-op"
	}
	g, ok := parseLVars(w[1])
	if !ok {
		return "bad-op"
	}
	procs := []*lProc{}
	for _, s := range w[2:] {
		p, ok := parseLProc(s)
		if !ok {
			return "bad-op"
		}
		procs = append(procs, p)
	}
	y, ok := ProjectYAML(g, procs)
	if !ok {
		return "bad-op"
	}
	return Safe(func() string {
		if c.dir == "" {
			c.dir, _ = os.MkdirTemp("", "pcload")
		}
		f := filepath.Join(c.dir, "pc.yaml")
		_ = os.WriteFile(f, y, 0o644)
		first := ""
		for i := 0; i < 8; i++ {
			prj, err := loader.Load(&loader.LoaderOptions{FileNames: []string{f}, IsInternalLoader: true})
			if err != nil {
				return "load-error:" + strings.ReplaceAll(err.Error(), " ", "_")
			}
			d := showLoaded(prj)
			if i == 0 {
				first = d
			} else if d != first {
				return "NONDET " + first + " " + d
			}
		}
		return first
	})
}

var loadTplParts = []string{"run", " ", "-", "{{.PC_REPLICA_NUM}}", "{{.V}}", "{{.G}}", "{{.L}}", "{{.MISSING}}", "/srv", "x", "_", ":", "8", "{{.PORT}}",
	"{{ .PC_REPLICA_NUM }}", "{{ .L }}"}

func genTpl(r *rand.Rand, allowEmpty bool) string {
	if allowEmpty && r.Intn(3) == 0 {
		return ""
	}
	n := 1 + r.Intn(4)
	s := ""
	for i := 0; i < n; i++ {
		s += loadTplParts[r.Intn(len(loadTplParts))]
	}
	if strings.TrimSpace(s) == "" {
		s = "t" + s
	}
	return s
}

func genLVars(r *rand.Rand, keys []string) string {
	l := []string{}
	for _, k := range keys {
		if r.Intn(2) == 0 {
			v := []string{"a", "bb", "7", "8080", "70000", "0", "x-y", "1048576"}[r.Intn(8)]
			l = append(l, k+"="+Hex(v))
		}
	}
	if len(l) == 0 {
		return "~"
	}
	return strings.Join(l, ",")
}

func genLProbe(r *rand.Rand) string {
	switch r.Intn(4) {
	case 0:
		wd := ""
		if r.Intn(3) == 0 {
			wd = "/pwd"
		}
		return "e/" + Hex(genTpl(r, false)) + "/" + Hex(wd)
	case 1:
		port := []string{"", "80", "{{.PORT}}", "8{{.PC_REPLICA_NUM}}", "x", "0", "65536", "{{.V}}"}[r.Intn(8)]
		return "h/" + Hex(genTpl(r, true)) + "/" + Hex([]string{"", "/", "/h{{.PC_REPLICA_NUM}}", "/{{.L}}", "/s{{ .PC_REPLICA_NUM }}"}[r.Intn(5)]) + "/" +
			Hex([]string{"", "https", "{{.G}}"}[r.Intn(3)]) + "/" + Hex(port)
	}
	return "~"
}

func GenLProc(r *rand.Rand, name string, replicas int) string {
	ns := []string{"", "ns1"}[r.Intn(2)]
	lt := []int{0, 0, -1, 3, 9}[r.Intn(5)]
	rp := genLProbe(r)
	return strings.Join([]string{name, strconv.Itoa(replicas), Hex(ns), strconv.Itoa(lt), Hex(genTpl(r, false)),
		Hex([]string{"", "/srv/{{.PC_REPLICA_NUM}}", "/w/{{.L}}", "/fixed"}[r.Intn(4)]), Hex([]string{"", "/tmp/pcload-{{.PC_REPLICA_NUM}}.log"}[0]), Hex(genTpl(r, true)),
		rp, genLProbe(r), genLVars(r, []string{"V", "L", "PORT", "PC_REPLICA_NUM"})}, ";")
}

func (c *loadC) Gen(r *rand.Rand, tier string, emit func(string)) {
	n := 150
	if tier == "thorough" {
		n = 4000
	}
	for i := 0; i < n; i++ {
		g := genLVars(r, []string{"V", "G", "PORT"})
		k := 1 + r.Intn(3)
		ps := []string{}
		for j := 0; j < k; j++ {
			rep := []int{0, 1, 2, 3, 3, 4, 10, 11}[r.Intn(8)]
			name := []string{"a", "b", "c"}[j]
			if r.Intn(4) == 0 {
				name += "_off"
			}
			ps = append(ps, GenLProc(r, name, rep))
		}
		emit("ld " + g + " " + strings.Join(ps, " "))
	}
}
