package comp

// Component `logfile` (C11, end to end): one real shell process under the real runner (no fake
// commander, cooperative scheduler off, back-off 5 ms) writes numbered lines to stdout and stderr
// in every attempt, exits with the scripted code of that attempt, is restarted by its policy, and
// has a log file of its own. After Run() returned the in-memory log and the file are read back.
//
//	lf <policy> <max_restarts> <exit codes per attempt, csv> <lines per attempt> <final line without newline 0|1> <log_length>

import (
	"syscall"
	"bufio"
	"encoding/json"
	"fmt"
	"math/rand"
	"os"
	"path/filepath"
	"strconv"
	"strings"
	"time"

	"io"

	"github.com/rs/zerolog"
	zlog "github.com/rs/zerolog/log"

	"github.com/f1bonacc1/process-compose/src/app"
	"github.com/f1bonacc1/process-compose/src/command"
	"github.com/f1bonacc1/process-compose/src/types"
	"github.com/f1bonacc1/process-compose/src/verif"
)

type logfileC struct{}

func init() { Register("logfile", func() Component { return &logfileC{} }) }

func split2(lines []string) (out, errl []string) {
	for _, l := range lines {
		switch {
		case strings.HasPrefix(l, "out "):
			out = append(out, strings.ReplaceAll(l, " ", "_"))
		case strings.HasPrefix(l, "err "):
			errl = append(errl, strings.ReplaceAll(l, " ", "_"))
		case strings.TrimSpace(l) == "":
		default:
			out = append(out, "OTHER:"+strings.ReplaceAll(l, " ", "_"))
		}
	}
	return
}

// runs compresses "out A I" lines into "A:first-last" runs of consecutive indices (per attempt)
func runs(lines []string, stream string) string {
	out := []string{}
	curA, first, last := "", -1, -1
	flush := func() {
		if first >= 0 {
			out = append(out, fmt.Sprintf("%s:%d-%d", curA, first, last))
		}
		first = -1
	}
	for _, l := range lines {
		f := strings.Fields(l)
		if len(f) != 3 || f[0] != stream {
			if strings.TrimSpace(l) == "" {
				continue
			}
			flush()
			out = append(out, "?"+strings.ReplaceAll(l, " ", "_"))
			continue
		}
		i, err := strconv.Atoi(f[2])
		if err != nil {
			flush()
			out = append(out, "?"+strings.ReplaceAll(l, " ", "_"))
			continue
		}
		if first >= 0 && f[1] == curA && i == last+1 {
			last = i
			continue
		}
		flush()
		curA, first, last = f[1], i, i
	}
	flush()
	return "[" + strings.Join(out, ",") + "]"
}

// stopped: a process that is stopped by a request and still writes while it goes down (its TERM
// handler prints a burst): everything it wrote before it exited has to be in its log.
//
//	lfs <lines before the stop> <lines printed by the TERM handler>
func (c *logfileC) stopped(n, burst int) string {
	zerolog.SetGlobalLevel(zerolog.InfoLevel)
	zlog.Logger = zerolog.New(io.Discard)
	defer zerolog.SetGlobalLevel(zerolog.Disabled)
	verif.Reset(false, false)
	app.VerifCommander = nil
	app.VerifStopCtx = nil
	app.VerifStopCtxOf = nil
	app.VerifBackoff = nil
	dir, _ := os.MkdirTemp("", "pclogstop")
	defer os.RemoveAll(dir)
	logf := filepath.Join(dir, "p.log")
	up := filepath.Join(dir, "up")
	// the handler writes its lines in large chunks (faster than the supervisor reads them), so that
	// there is unread output in the pipes when the shell exits
	script := fmt.Sprintf(`trap 'seq 1 %[1]d | sed "s/^/out 2 /"; seq 1 %[1]d | sed "s/^/err 2 /" 1>&2; exit 0' TERM; i=1; while [ $i -le %[2]d ]; do echo "out 1 $i"; echo "err 1 $i" 1>&2; i=$((i+1)); done; touch %[3]s; while true; do sleep 0.05; done`,
		burst, n, up)
	pc := types.ProcessConfig{Name: "p", ReplicaName: "p", Command: script, Executable: "sh", Args: []string{"-c", script},
		Namespace: "default", Replicas: 1, LogLocation: logf}
	pc.RestartPolicy.Restart = "no"
	prj := &types.Project{Processes: types.Processes{"p": pc}, LogLength: 2*(n+burst) + 1000, ShellConfig: command.DefaultShellConfig()}
	r, err := app.NewProjectRunner((&app.ProjectOpts{}).WithProject(prj).WithIsTuiOn(true))
	if err != nil {
		return "runner-error"
	}
	done := make(chan struct{})
	go func() { _ = r.Run(); close(done) }()
	deadline := time.Now().Add(10 * time.Second)
	for {
		if _, err := os.Stat(up); err == nil {
			break
		}
		if time.Now().After(deadline) {
			_ = r.ShutDownProject()
			return "not-up"
		}
		time.Sleep(5 * time.Millisecond)
	}
	_ = r.StopProcess("p")
	select {
	case <-done:
	case <-time.After(30 * time.Second):
		_ = r.ShutDownProject()
		return "run-did-not-return"
	}
	mem, _ := r.GetProcessLog("p", 10000000, 0)
	var flines []string
	if f, err := os.Open(logf); err == nil {
		sc := bufio.NewScanner(f)
		sc.Buffer(make([]byte, 1<<20), 1<<20)
		for sc.Scan() {
			var m map[string]any
			if json.Unmarshal(sc.Bytes(), &m) == nil {
				if s, ok := m["message"].(string); ok {
					flines = append(flines, s)
				}
			}
		}
		f.Close()
	} else {
		flines = []string{"NO-FILE"}
	}
	pick := func(lines []string, stream string) []string {
		o := []string{}
		for _, l := range lines {
			if strings.HasPrefix(l, stream+" ") {
				o = append(o, l)
			}
		}
		return o
	}
	return fmt.Sprintf("mem_out=%s mem_err=%s file_out=%s file_err=%s", runs(pick(mem, "out"), "out"), runs(pick(mem, "err"), "err"),
		runs(pick(flines, "out"), "out"), runs(pick(flines, "err"), "err"))
}

// stalled: the log file does not take data for a while (a FIFO that nobody reads for `ms`
// milliseconds - a slow disk, a hung mount): the process writes n lines per stream and exits; once
// the file takes data again every line has to arrive in it.
//
//	lfq <lines> <stall in ms>
func (c *logfileC) stalled(n, ms int) string {
	zerolog.SetGlobalLevel(zerolog.InfoLevel)
	zlog.Logger = zerolog.New(io.Discard)
	defer zerolog.SetGlobalLevel(zerolog.Disabled)
	verif.Reset(false, false)
	app.VerifCommander = nil
	app.VerifStopCtx = nil
	app.VerifStopCtxOf = nil
	app.VerifBackoff = nil
	dir, _ := os.MkdirTemp("", "pclogfifo")
	defer os.RemoveAll(dir)
	logf := filepath.Join(dir, "p.fifo")
	if err := syscall.Mkfifo(logf, 0o600); err != nil {
		return "no-fifo"
	}
	// both ends held by the harness, so that opening the file never blocks and nothing is read yet
	rd, err := os.OpenFile(logf, os.O_RDWR, 0)
	if err != nil {
		return "no-fifo"
	}
	defer rd.Close()
	// lines of 1 KB: the FIFO (64 KB) and the write buffer are full after some 68 of them, the rest
	// waits in the logger's queue (keep 2n below 68 + the queue's capacity of 100, so that the process
	// itself is never held up and can exit while the file is stalled)
	pad := strings.Repeat("x", 1000)
	script := fmt.Sprintf(`i=1; while [ $i -le %d ]; do echo "out 1 $i %s"; echo "err 1 $i %s" 1>&2; i=$((i+1)); done`, n, pad, pad)
	pc := types.ProcessConfig{Name: "p", ReplicaName: "p", Command: script, Executable: "sh", Args: []string{"-c", script},
		Namespace: "default", Replicas: 1, LogLocation: logf}
	pc.RestartPolicy.Restart = "no"
	prj := &types.Project{Processes: types.Processes{"p": pc}, LogLength: 2*n + 1000, ShellConfig: command.DefaultShellConfig()}
	r, err := app.NewProjectRunner((&app.ProjectOpts{}).WithProject(prj).WithIsTuiOn(true))
	if err != nil {
		return "runner-error"
	}
	done := make(chan struct{})
	go func() { _ = r.Run(); close(done) }()
	var data []byte
	got := make(chan struct{})
	go func() {
		defer close(got)
		time.Sleep(time.Duration(ms) * time.Millisecond)
		buf := make([]byte, 1<<16)
		finished := false
		for {
			if !finished {
				select {
				case <-done:
					finished = true
				default:
				}
			}
			_ = rd.SetReadDeadline(time.Now().Add(300 * time.Millisecond))
			k, err := rd.Read(buf)
			data = append(data, buf[:k]...)
			if err != nil && finished {
				// nothing arrived for 300 ms after Run() returned: the file has everything it will get
				return
			}
		}
	}()
	select {
	case <-got:
	case <-time.After(time.Duration(ms)*time.Millisecond + 40*time.Second):
		_ = r.ShutDownProject()
		return "run-did-not-return"
	}
	var flines []string
	for _, ln := range strings.Split(string(data), "\n") {
		var m map[string]any
		if json.Unmarshal([]byte(ln), &m) == nil {
			if s, ok := m["message"].(string); ok {
				flines = append(flines, s)
			}
		}
	}
	mem, _ := r.GetProcessLog("p", 10000000, 0)
	pick := func(lines []string, stream string) []string {
		o := []string{}
		for _, l := range lines {
			if strings.HasPrefix(l, stream+" ") {
				o = append(o, l)
			}
		}
		return o
	}
	count := func(lines []string, stream string) string {
		// "[1:1-n]" when the lines are exactly 1..n in order, otherwise what is there
		want := true
		if len(lines) != n {
			want = false
		}
		for i, l := range lines {
			if l != fmt.Sprintf("%s 1 %d %s", stream, i+1, pad) {
				want = false
			}
		}
		if want {
			return fmt.Sprintf("[1:1-%d]", n)
		}
		last := ""
		if len(lines) > 0 {
			last = strings.ReplaceAll(strings.TrimSuffix(lines[len(lines)-1], pad), " ", "_")
		}
		return fmt.Sprintf("[%d-lines,last=%s]", len(lines), last)
	}
	return fmt.Sprintf("mem_out=%s mem_err=%s file_out=%s file_err=%s", count(pick(mem, "out"), "out"), count(pick(mem, "err"), "err"),
		count(pick(flines, "out"), "out"), count(pick(flines, "err"), "err"))
}

func (c *logfileC) Exec(op string) string {
	w := strings.Fields(op)
	if len(w) == 3 && w[0] == "lfs" {
		n, e1 := strconv.Atoi(w[1])
		b, e2 := strconv.Atoi(w[2])
		if e1 != nil || e2 != nil || n < 1 || b < 1 {
			return "bad-op"
		}
		return Safe(func() string { return c.stopped(n, b) })
	}
	if len(w) == 3 && w[0] == "lfq" {
		n, e1 := strconv.Atoi(w[1])
		ms, e2 := strconv.Atoi(w[2])
		if e1 != nil || e2 != nil || n < 1 || ms < 0 {
			return "bad-op"
		}
		return Safe(func() string { return c.stalled(n, ms) })
	}
	if len(w) != 7 || w[0] != "lf" {
		return "bad-op"
	}
	mx, e1 := strconv.Atoi(w[2])
	nlines, e2 := strconv.Atoi(w[4])
	loglen, e3 := strconv.Atoi(w[6])
	if e1 != nil || e2 != nil || e3 != nil {
		return "bad-op"
	}
	codes := strings.Split(w[3], ",")
	return Safe(func() string {
		// the harness silences zerolog globally; the process log file is a zerolog logger too
		zerolog.SetGlobalLevel(zerolog.InfoLevel)
		zlog.Logger = zerolog.New(io.Discard)
		defer zerolog.SetGlobalLevel(zerolog.Disabled)
		verif.Reset(false, false)
		app.VerifCommander = nil
		app.VerifStopCtx = nil
		app.VerifStopCtxOf = nil
		app.VerifBackoff = func(string, bool) time.Duration { return 5 * time.Millisecond }
		dir, _ := os.MkdirTemp("", "pclogfile")
		defer os.RemoveAll(dir)
		cnt := filepath.Join(dir, "cnt")
		logf := filepath.Join(dir, "p.log")
		cases := ""
		for i, cd := range codes {
			switch cd {
			case "K":
				// the command is ended by a signal (SIGKILL / SIGTERM to itself): no exit code of its own
				cases += fmt.Sprintf("%d) kill -9 $$;; ", i+1)
			case "T":
				cases += fmt.Sprintf("%d) kill -TERM $$;; ", i+1)
			default:
				cases += fmt.Sprintf("%d) exit %s;; ", i+1, cd)
			}
		}
		last := ""
		if w[5] == "1" {
			last = `printf "out $n last"; `
		}
		script := fmt.Sprintf(`n=$(cat %s 2>/dev/null || echo 0); n=$((n+1)); echo $n > %s; i=1; while [ $i -le %d ]; do echo "out $n $i"; echo "err $n $i" 1>&2; i=$((i+1)); done; %scase $n in %s*) exit 0;; esac`,
			cnt, cnt, nlines, last, cases)
		pc := types.ProcessConfig{Name: "p", ReplicaName: "p", Command: script, Executable: "sh", Args: []string{"-c", script},
			Namespace: "default", Replicas: 1, LogLocation: logf}
		pc.RestartPolicy.Restart = w[1]
		pc.RestartPolicy.MaxRestarts = mx
		prj := &types.Project{Processes: types.Processes{"p": pc}, LogLength: loglen, ShellConfig: command.DefaultShellConfig()}
		r, err := app.NewProjectRunner((&app.ProjectOpts{}).WithProject(prj).WithIsTuiOn(true))
		if err != nil {
			return "runner-error"
		}
		done := make(chan struct{})
		runRes := "ok"
		go func() {
			if err := r.Run(); err != nil {
				runRes = "error"
				if ee, ok := err.(*app.ExitError); ok {
					runRes = fmt.Sprintf("exit:%d", ee.Code)
				}
			}
			close(done)
		}()
		select {
		case <-done:
		case <-time.After(20 * time.Second):
			_ = r.ShutDownProject()
			return "run-did-not-return"
		}
		mem, _ := r.GetProcessLog("p", 1000000, 0)
		mo, me := split2(mem)
		var flines []string
		if f, err := os.Open(logf); err == nil {
			sc := bufio.NewScanner(f)
			sc.Buffer(make([]byte, 1<<20), 1<<20)
			for sc.Scan() {
				var m map[string]any
				if json.Unmarshal(sc.Bytes(), &m) == nil {
					if s, ok := m["message"].(string); ok {
						flines = append(flines, s)
					}
				}
			}
			f.Close()
		} else {
			flines = []string{"NO-FILE"}
		}
		if os.Getenv("LF_DEBUG") != "" {
			b, _ := os.ReadFile(logf)
			fmt.Fprintln(os.Stderr, string(b))
		}
		fo, fe := split2(flines)
		st, _ := r.GetProcessState("p")
		j := func(l []string) string { return "[" + strings.Join(l, ",") + "]" }
		return fmt.Sprintf("status=%s restarts=%d mem_out=%s mem_err=%s file_out=%s file_err=%s exit=%d run=%s", st.Status, st.Restarts, j(mo), j(me), j(fo), j(fe), st.ExitCode, runRes)
	})
}

func (c *logfileC) Gen(r *rand.Rand, tier string, emit func(string)) {
	n := 14
	if tier == "thorough" {
		n = 150
	}
	pols := []string{"no", "always", "on_failure", "on_failure", "exit_on_failure"}
	for k := 0; k < n; k++ {
		codes := []string{}
		for i := 0; i < 1+r.Intn(4); i++ {
			codes = append(codes, []string{"0", "1", "1", "3", "K", "T"}[r.Intn(6)])
		}
		mx := 1 + r.Intn(3)
		emit(fmt.Sprintf("lf %s %d %s %d %d %d", pols[r.Intn(len(pols))], mx, strings.Join(codes, ","), 1+r.Intn(4), r.Intn(2), []int{1000, 1000, 5}[r.Intn(3)]))
	}
	// a log file that takes no data for three seconds while the process writes and exits
	emit("lfq 70 3000")
	// a process that is stopped and still writes while it goes down
	emit(fmt.Sprintf("lfs %d %d", 1+r.Intn(5), 3+r.Intn(5)))
	emit(fmt.Sprintf("lfs %d %d", 1+r.Intn(5), 20000+r.Intn(5000)))
}
