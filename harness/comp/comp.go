// Package comp: correspondence components. Each drives one piece of the real code with
// protocol operations (one per line) and returns the implementation's canonical result.
package comp

import (
	"encoding/hex"
	"fmt"
	"math/rand"
	"sort"
	"strings"
)

type Component interface {
	// Exec runs one operation against the real code and returns the canonical result.
	Exec(op string) string
	// Gen emits generated operations (seeded); emit executes and records each.
	Gen(r *rand.Rand, tier string, emit func(op string))
}

var Registry = map[string]func() Component{}

func Register(name string, f func() Component) { Registry[name] = f }

func Names() []string {
	l := []string{}
	for n := range Registry {
		l = append(l, n)
	}
	sort.Strings(l)
	return l
}

// Hex encodes a string field ("-" for the empty string).
func Hex(s string) string {
	if s == "" {
		return "-"
	}
	return hex.EncodeToString([]byte(s))
}

func UnHex(h string) (string, bool) {
	if h == "-" {
		return "", true
	}
	b, err := hex.DecodeString(h)
	if err != nil {
		return "", false
	}
	return string(b), true
}

func HexList(l []string) string {
	p := make([]string, len(l))
	for i, s := range l {
		p[i] = Hex(s)
	}
	return "[" + strings.Join(p, ",") + "]"
}

// Safe runs f and maps a panic to the canonical result "panic".
func Safe(f func() string) (res string) {
	defer func() {
		if e := recover(); e != nil {
			res = "panic"
		}
	}()
	return f()
}

func Itoa(i int) string { return fmt.Sprintf("%d", i) }
