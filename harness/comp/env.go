package comp

import (
	"fmt"
	"math/rand"
	"os"
	"path/filepath"
	"sort"
	"strconv"
	"strings"
	"time"

	"github.com/f1bonacc1/process-compose/src/app"
	"github.com/f1bonacc1/process-compose/src/command"
	"github.com/f1bonacc1/process-compose/src/loader"
	"github.com/f1bonacc1/process-compose/src/types"
	"github.com/f1bonacc1/process-compose/src/verif"
)

// env: os.Expand (library model), loadProjectFromFile's text rewriting, getProcessEnvironment.
type envC struct{ dir string }

func init() { Register("env", func() Component { return &envC{} }) }

func pairs(h string) ([][2]string, bool) {
	s, ok := UnHex(h)
	if !ok {
		return nil, false
	}
	var out [][2]string
	for _, kv := range strings.Split(s, ";") {
		if kv == "" {
			continue
		}
		p := strings.SplitN(kv, "=", 2)
		if len(p) == 1 {
			p = append(p, "")
		}
		out = append(out, [2]string{p[0], p[1]})
	}
	return out, true
}

func lookupLast(ps [][2]string, k string) (string, bool) {
	for i := len(ps) - 1; i >= 0; i-- {
		if ps[i][0] == k {
			return ps[i][1], true
		}
	}
	return "", false
}

func (c *envC) Exec(op string) string {
	w := strings.Fields(op)
	return Safe(func() string {
		switch {
		case len(w) == 3 && w[0] == "expand":
			ps, ok1 := pairs(w[1])
			txt, ok2 := UnHex(w[2])
			if !ok1 || !ok2 {
				return "bad-op"
			}
			return Hex(os.Expand(txt, func(n string) string { v, _ := lookupLast(ps, n); return v }))
		case len(w) == 3 && w[0] == "load":
			ps, ok1 := pairs(w[1])
			txt, ok2 := UnHex(w[2])
			if !ok1 || !ok2 {
				return "bad-op"
			}
			if c.dir == "" {
				c.dir, _ = os.MkdirTemp("", "pcenv")
			}
			for _, p := range ps {
				os.Setenv(p[0], p[1])
			}
			defer func() {
				for _, p := range ps {
					os.Unsetenv(p[0])
				}
			}()
			f := filepath.Join(c.dir, "pc.yaml")
			_ = os.WriteFile(f, []byte("processes:\n  p:\n    command: \""+txt+"\"\n"), 0o644)
			prj, err := loader.VerifLoadProjectFromFile(f, true)
			if err != nil {
				return "err"
			}
			return Hex(prj.Processes["p"].Command)
		case len(w) == 4 && w[0] == "loadkey":
			// variables in a process name (a mapping key) and in a numeric field
			ps, ok1 := pairs(w[1])
			key, ok2 := UnHex(w[2])
			num, ok3 := UnHex(w[3])
			if !ok1 || !ok2 || !ok3 {
				return "bad-op"
			}
			if c.dir == "" {
				c.dir, _ = os.MkdirTemp("", "pcenv")
			}
			for _, p := range ps {
				os.Setenv(p[0], p[1])
			}
			defer func() {
				for _, p := range ps {
					os.Unsetenv(p[0])
				}
			}()
			f := filepath.Join(c.dir, "pck.yaml")
			_ = os.WriteFile(f, []byte("processes:\n  \""+key+"\":\n    command: \"x\"\n    replicas: "+num+"\n"), 0o644)
			prj, err := loader.VerifLoadProjectFromFile(f, true)
			if err != nil {
				return "err"
			}
			names := []string{}
			reps := ""
			for n, pc := range prj.Processes {
				names = append(names, n)
				reps = strconv.Itoa(pc.Replicas)
			}
			sort.Strings(names)
			return "names=" + HexList(names) + " replicas=" + reps
		case len(w) == 4 && w[0] == "dotenv":
			// inherited environment, a .env file in the working directory, text to expand: a variable of
			// the process-compose environment - also an empty one - is not overridden by the file
			inh, ok1 := pairs(w[1])
			file, ok2 := pairs(w[2])
			txt, ok3 := UnHex(w[3])
			if !ok1 || !ok2 || !ok3 {
				return "bad-op"
			}
			if c.dir == "" {
				c.dir, _ = os.MkdirTemp("", "pcenv")
			}
			for _, p := range inh {
				os.Setenv(p[0], p[1])
			}
			body := ""
			for _, p := range file {
				body += p[0] + "=" + p[1] + "\n"
			}
			_ = os.WriteFile(filepath.Join(c.dir, ".env"), []byte(body), 0o644)
			cwd, _ := os.Getwd()
			_ = os.Chdir(c.dir)
			defer func() {
				_ = os.Chdir(cwd)
				_ = os.Remove(filepath.Join(c.dir, ".env"))
				for _, p := range inh {
					os.Unsetenv(p[0])
				}
				for _, p := range file {
					os.Unsetenv(p[0])
				}
			}()
			f := filepath.Join(c.dir, "pc.yaml")
			_ = os.WriteFile(f, []byte("processes:\n  p:\n    command: \""+txt+"\"\n"), 0o644)
			prj, err := loader.VerifLoadProjectFromFile(f, false)
			if err != nil {
				return "err"
			}
			return Hex(prj.Processes["p"].Command)
		case (len(w) == 5 || len(w) == 6) && w[0] == "launchenv":
			glob, ok1 := pairs(w[1])
			ownP, ok2 := pairs(w[2])
			ownQ, ok3 := pairs(w[3])
			key, ok4 := UnHex(w[4])
			if !ok1 || !ok2 || !ok3 || !ok4 || (len(w) == 6 && w[5] != "cmds") {
				return "bad-op"
			}
			return c.launchEnv(glob, ownP, ownQ, key, len(w) == 6)
		case len(w) == 5 && w[0] == "realenv":
			glob, ok1 := pairs(w[2])
			own, ok2 := pairs(w[3])
			key, ok3 := UnHex(w[4])
			if !ok1 || !ok2 || !ok3 || (w[1] != "0" && w[1] != "1") {
				return "bad-op"
			}
			return c.realEnv(w[1] == "1", glob, own, key)
		case len(w) == 7 && w[0] == "procenv":
			name, ok := UnHex(w[1])
			rep, err := strconv.Atoi(w[2])
			inh, ok1 := pairs(w[3])
			glob, ok2 := pairs(w[4])
			own, ok3 := pairs(w[5])
			key, ok4 := UnHex(w[6])
			if !ok || err != nil || !ok1 || !ok2 || !ok3 || !ok4 {
				return "bad-op"
			}
			for _, p := range inh {
				os.Setenv(p[0], p[1])
			}
			defer func() {
				for _, p := range inh {
					os.Unsetenv(p[0])
				}
			}()
			flat := func(ps [][2]string) []string {
				var l []string
				for _, p := range ps {
					l = append(l, p[0]+"="+p[1])
				}
				return l
			}
			env := app.VerifProcessEnvironment(name, rep, flat(glob), flat(own))
			// what the command sees: os/exec keeps the last duplicate of a key
			val, found := "", false
			for _, e := range env {
				kv := strings.SplitN(e, "=", 2)
				if len(kv) == 2 && kv[0] == key {
					val, found = kv[1], true
				}
			}
			if !found {
				return "unset"
			}
			return Hex(val)
		}
		return "bad-op"
	})
}

// launchEnv: what two processes of one project are handed as environment at every launch, on the
// real runner (fake commands, cooperative scheduler): p is launched, q is launched, p fails and is
// relaunched by its restart policy. The global environment is a slice with spare capacity, as a
// merged or env_cmds-extended environment is. Result: the value of `key` seen by p#1, q#1, p#2.
func (c *envC) launchEnv(glob, ownP, ownQ [][2]string, key string, withCmds bool) string {
	flat := func(ps [][2]string, spare int) []string {
		l := make([]string, 0, len(ps)+spare)
		for _, p := range ps {
			l = append(l, p[0]+"="+p[1])
		}
		return l
	}
	h := &supH{}
	h.reset("coarse", false)
	mk := func(name string, own [][2]string, pol string) types.ProcessConfig {
		return types.ProcessConfig{Name: name, ReplicaName: name, Command: "run " + name, Executable: "run", Args: []string{name},
			Namespace: "default", Replicas: 1, LaunchTimeout: 5, DependsOn: types.DependsOnConfig{},
			Environment: flat(own, 0), RestartPolicy: types.RestartPolicyConfig{Restart: pol, BackoffSeconds: 1}}
	}
	prj := &types.Project{Environment: flat(glob, 6), ShellConfig: &command.ShellConfig{ShellCommand: "sh", ShellArgument: "-c"},
		Processes: map[string]types.ProcessConfig{"p": mk("p", ownP, types.RestartPolicyOnFailure), "q": mk("q", ownQ, types.RestartPolicyNo)}}
	if withCmds {
		// env_cmds: the trimmed output of each command becomes a global variable (appended after the
		// configured ones); a command that fails defines nothing
		prj.EnvCommands = map[string]string{"VT_CMD": "echo '  fromcmd  '", "VT_A": "echo cmdA", "VT_FAIL": "echo no; exit 3"}
	}
	r, err := app.NewProjectRunner((&app.ProjectOpts{}).WithProject(prj).WithIsTuiOn(true))
	if err != nil {
		return "runner-error"
	}
	h.r = r
	sc := scaleC{h: h}
	if err := verif.S.Go("api", "main", func() { _ = r.Run() }); err != nil {
		return "DIVERGED"
	}
	if q := sc.quiesce(); q != "" {
		return q
	}
	for _, fc := range h.cmds {
		if fc.alive && fc.name == "p" {
			fc.exit(1)
		}
	}
	if q := sc.quiesce(); q != "" {
		return q
	}
	verif.S.TakeLog()
	look := func(env []string) string {
		val, found := "", false
		for _, e := range env {
			kv := strings.SplitN(e, "=", 2)
			if len(kv) == 2 && kv[0] == key {
				val, found = kv[1], true
			}
		}
		if !found {
			return "unset"
		}
		return Hex(val)
	}
	out := []string{}
	np := 0
	for _, fc := range h.cmds {
		if fc.name == "p" {
			np++
			out = append(out, fmt.Sprintf("p%d=%s", np, look(fc.env)))
		}
	}
	for _, fc := range h.cmds {
		if fc.name == "q" {
			out = append(out, "q1="+look(fc.env))
		}
	}
	// end the scenario
	for _, fc := range h.cmds {
		if fc.alive {
			fc.exit(0)
		}
	}
	_ = sc.quiesce()
	return strings.Join(out, " ")
}

// realEnv: what one real command (no fake commander) sees when the real runner launches it, with or
// without a pseudo terminal: the value of `key`, the injected pair, the working directory.
func (c *envC) realEnv(tty bool, glob, own [][2]string, key string) string {
	return Safe(func() string {
		verif.Reset(false, false)
		app.VerifCommander = nil
		app.VerifStopCtx = nil
		app.VerifStopCtxOf = nil
		dir, _ := os.MkdirTemp("", "pcrealenv")
		defer os.RemoveAll(dir)
		wd := filepath.Join(dir, "w d")
		_ = os.Mkdir(wd, 0o755)
		flat := func(ps [][2]string) []string {
			var l []string
			for _, p := range ps {
				l = append(l, p[0]+"="+p[1])
			}
			return l
		}
		script := fmt.Sprintf(`if [ "${%s+s}" = s ]; then v=$(printf '%%s' "$%s" | od -An -tx1 | tr -d ' \n'); [ -z "$v" ] && v=-; else v=unset; fi; echo "k=$v n=$PC_PROC_NAME r=$PC_REPLICA_NUM d=$(pwd -P)"`, key, key)
		pc := types.ProcessConfig{Name: "p", ReplicaName: "p", Command: script, Executable: "sh", Args: []string{"-c", script},
			Namespace: "default", Replicas: 1, IsTty: tty, WorkingDir: wd, Environment: flat(own)}
		prj := &types.Project{Processes: types.Processes{"p": pc}, Environment: flat(glob), ShellConfig: command.DefaultShellConfig()}
		r, err := app.NewProjectRunner((&app.ProjectOpts{}).WithProject(prj).WithIsTuiOn(true))
		if err != nil {
			return "runner-error"
		}
		done := make(chan struct{})
		go func() { _ = r.Run(); close(done) }()
		select {
		case <-done:
		case <-time.After(20 * time.Second):
			_ = r.ShutDownProject()
			return "run-did-not-return"
		}
		mem, _ := r.GetProcessLog("p", 1000, 0)
		want, _ := filepath.EvalSymlinks(wd)
		for _, l := range mem {
			l = strings.TrimRight(l, "\r\n ")
			if strings.HasPrefix(l, "k=") {
				i := strings.Index(l, " d=")
				if i < 0 {
					return "garbled:" + Hex(l)
				}
				d := "other"
				if l[i+3:] == want {
					d = "ok"
				}
				return l[:i] + " dir=" + d
			}
		}
		return "no-output"
	})
}

func encPairs(ps [][2]string) string {
	parts := []string{}
	for _, p := range ps {
		parts = append(parts, p[0]+"="+p[1])
	}
	return Hex(strings.Join(parts, ";"))
}

func (c *envC) Gen(r *rand.Rand, tier string, emit func(string)) {
	names := []string{"VT_A", "VT_B", "VT_AB", "VT_1", "VT__", "VT_EMPTY"}
	vals := []string{"", "x", "a b", "/p/q", "é", "1", "v$VT_A", "{}"}
	mkEnv := func() [][2]string {
		var ps [][2]string
		for _, n := range names {
			if r.Intn(3) > 0 {
				ps = append(ps, [2]string{n, vals[r.Intn(len(vals))]})
			}
		}
		return ps
	}
	// exhaustive short strings over the expansion alphabet
	alpha := []string{"$", "{", "}", "A", "_", "1", " ", "#"}
	maxLen := 4
	if tier == "thorough" {
		maxLen = 5
	}
	envA := [][2]string{{"A", "va"}, {"A1", "va1"}, {"_", "u"}, {"1", "one"}, {"A_", "vau"}, {"AA", "vaa"}}
	var rec func(prefix string, n int)
	rec = func(prefix string, n int) {
		if prefix != "" {
			emit(fmt.Sprintf("expand %s %s", encPairs(envA), Hex(prefix)))
		}
		if n == 0 {
			return
		}
		for _, a := range alpha {
			rec(prefix+a, n-1)
		}
	}
	rec("", maxLen)
	cnt := 400
	if tier == "thorough" {
		cnt = 20000
	}
	pieces := []string{"$VT_A", "${VT_B}", "$$", "$", "${", "}", "${}", "$VT_AB", "${VT_1}x", "text", " ", "$VT_EMPTY", "$VT_NONE", "##PC_ENV_ESCAPED##", "#", "$$VT_A", "$$$VT_A", "${VT__}", "$1", "$*", "é", "a=b", "$VT_A$VT_B", "$VT_A$$B", "/$VT_B$$", "${VT_A}$$x"}
	for k := 0; k < cnt; k++ {
		n := 1 + r.Intn(6)
		txt := ""
		for i := 0; i < n; i++ {
			txt += pieces[r.Intn(len(pieces))]
		}
		env := mkEnv()
		emit(fmt.Sprintf("expand %s %s", encPairs(env), Hex(txt)))
		emit(fmt.Sprintf("load %s %s", encPairs(env), Hex(txt)))
	}
	// .env file against the inherited environment (set, set to the empty string, unset)
	dn := 60
	if tier == "thorough" {
		dn = 3000
	}
	dkeys := []string{"VT_A", "VT_B", "VT_C"}
	for k := 0; k < dn; k++ {
		var inh, file [][2]string
		for _, key := range dkeys {
			switch r.Intn(3) {
			case 0:
				inh = append(inh, [2]string{key, "outer" + key})
			case 1:
				inh = append(inh, [2]string{key, ""})
			}
			if r.Intn(3) > 0 {
				file = append(file, [2]string{key, []string{"file" + key, "x", ""}[r.Intn(3)]})
			}
		}
		emit(fmt.Sprintf("dotenv %s %s %s", encPairs(inh), encPairs(file), Hex("run $VT_A-${VT_B}-$VT_C.")))
	}
	// launch environment: overlaps between the layers, injected keys in every layer
	keys := []string{"VT_A", "VT_B", "VT_AB", "PC_PROC_NAME", "PC_REPLICA_NUM", "PC_PORT_NUM", "VT_NONE"}
	layer := func() [][2]string {
		var ps [][2]string
		for _, k := range keys[:6] {
			if r.Intn(3) == 0 {
				ps = append(ps, [2]string{k, vals[r.Intn(len(vals))]})
			}
		}
		if r.Intn(4) == 0 && len(ps) > 0 {
			ps = append(ps, [2]string{ps[0][0], "dup"})
		}
		return ps
	}
	m := 300
	if tier == "thorough" {
		m = 10000
	}
	for k := 0; k < m; k++ {
		emit(fmt.Sprintf("procenv %s %d %s %s %s %s", Hex([]string{"p", "web", "db-1"}[r.Intn(3)]), r.Intn(12),
			encPairs(layer()), encPairs(layer()), encPairs(layer()), Hex(keys[r.Intn(len(keys))])))
	}
	// variables in a process name and in a numeric field
	for k := 0; k < 12; k++ {
		env := [][2]string{{"VT_A", []string{"web", "db", "x_y"}[r.Intn(3)]}, {"VT_N", []string{"1", "2", "3"}[r.Intn(3)]}}
		key := []string{"${VT_A}_w", "$VT_A", "p$$q", "w_${VT_A}", "plain"}[r.Intn(5)]
		num := []string{"${VT_N}", "$VT_N", "2"}[r.Intn(3)]
		emit(fmt.Sprintf("loadkey %s %s %s", encPairs(env), Hex(key), Hex(num)))
	}
	// one real command under the real runner, with and without a pseudo terminal
	for k := 0; k < 6; k++ {
		g, a := layer(), layer()
		rk := []string{"VT_A", "VT_B", "VT_AB", "VT_NONE"}[r.Intn(4)]
		if all := append(append([][2]string{}, g...), a...); len(all) > 0 && k < 4 {
			rk = all[r.Intn(len(all))][0]
		}
		emit(fmt.Sprintf("realenv %d %s %s %s", k%2, encPairs(g), encPairs(a), Hex(rk)))
	}
	// the environment each of two processes is handed at every launch (first launches and a relaunch by policy)
	for k := 0; k < m/10+5; k++ {
		g, a, b := layer(), layer(), layer()
		if k%3 == 0 {
			// each process has a variable of its own under one key
			a = append(a, [2]string{"VT_OWN", "of-p"})
			b = append(b, [2]string{"VT_OWN", "of-q"})
		}
		key := append(keys, "VT_OWN")[r.Intn(len(keys)+1)]
		if k%2 == 1 {
			key = append(keys, "VT_CMD", "VT_FAIL")[r.Intn(len(keys)+2)]
			emit(fmt.Sprintf("launchenv %s %s %s %s cmds", encPairs(g), encPairs(a), encPairs(b), Hex(key)))
			continue
		}
		emit(fmt.Sprintf("launchenv %s %s %s %s", encPairs(g), encPairs(a), encPairs(b), Hex(key)))
	}
}
