package comp

import (
	"encoding/hex"
	"io"
	"math/rand"
	"strings"

	"github.com/f1bonacc1/process-compose/src/app"
)

// output: Process.handleOutput over a reader that delivers the stream in the given chunks.

type chunkPipe struct {
	chunks [][]byte
}

func (c *chunkPipe) Read(b []byte) (int, error) {
	if len(c.chunks) == 0 {
		return 0, io.EOF
	}
	n := copy(b, c.chunks[0])
	if n < len(c.chunks[0]) {
		c.chunks[0] = c.chunks[0][n:]
	} else {
		c.chunks = c.chunks[1:]
	}
	return n, nil
}
func (c *chunkPipe) Close() error { return nil }

type output struct{}

func init() { Register("output", func() Component { return &output{} }) }

func (o *output) Exec(op string) string {
	w := strings.Fields(op)
	if len(w) != 2 || w[0] != "chunks" {
		return "bad-op"
	}
	var chunks [][]byte
	for _, c := range strings.Split(w[1], ",") {
		if c == "-" {
			chunks = append(chunks, []byte{})
			continue
		}
		b, err := hex.DecodeString(c)
		if err != nil {
			return "bad-op"
		}
		chunks = append(chunks, b)
	}
	return Safe(func() string {
		lines, _ := app.VerifHandleOutput(&chunkPipe{chunks: chunks}, "")
		parts := make([]string, len(lines))
		for i, l := range lines {
			if l == "" {
				parts[i] = "-"
			} else {
				parts[i] = hex.EncodeToString([]byte(l))
			}
		}
		return "[" + strings.Join(parts, ",") + "]"
	})
}

func encChunks(chunks [][]byte) string {
	parts := make([]string, len(chunks))
	for i, c := range chunks {
		if len(c) == 0 {
			parts[i] = "-"
		} else {
			parts[i] = hex.EncodeToString(c)
		}
	}
	return strings.Join(parts, ",")
}

func (o *output) Gen(r *rand.Rand, tier string, emit func(string)) {
	// exhaustive: every stream of length <= 5 (thorough 7) over {a, \n}, every cut into consecutive chunks
	maxLen := 5
	if tier == "thorough" {
		maxLen = 7
	}
	for n := 1; n <= maxLen; n++ {
		for bits := 0; bits < 1<<n; bits++ {
			s := make([]byte, n)
			for i := range s {
				if bits&(1<<i) != 0 {
					s[i] = '\n'
				} else {
					s[i] = 'a' + byte(i)
				}
			}
			for cuts := 0; cuts < 1<<(n-1); cuts++ {
				var chunks [][]byte
				start := 0
				for i := 1; i < n; i++ {
					if cuts&(1<<(i-1)) != 0 {
						chunks = append(chunks, s[start:i])
						start = i
					}
				}
				chunks = append(chunks, s[start:])
				emit("chunks " + encChunks(chunks))
			}
		}
	}
	// random: long lines, bursts, empty reads, \r\n, missing final newline
	cnt := 300
	if tier == "thorough" {
		cnt = 20000
	}
	for k := 0; k < cnt; k++ {
		var stream []byte
		nl := 1 + r.Intn(6)
		for i := 0; i < nl; i++ {
			ll := []int{0, 1, 3, 20, 200, 700}[r.Intn(6)]
			if k%50 == 0 && i == 0 {
				ll = 9000 // longer than bufio's buffer
			}
			for j := 0; j < ll; j++ {
				stream = append(stream, byte('a'+r.Intn(26)))
			}
			if r.Intn(8) == 0 {
				stream = append(stream, '\r')
			}
			if i < nl-1 || r.Intn(2) == 0 {
				stream = append(stream, '\n')
			}
		}
		var chunks [][]byte
		for len(stream) > 0 {
			if r.Intn(10) == 0 {
				chunks = append(chunks, []byte{})
			}
			n := 1 + r.Intn(1+[]int{1, 8, 100, 5000}[r.Intn(4)])
			if n > len(stream) {
				n = len(stream)
			}
			chunks = append(chunks, stream[:n])
			stream = stream[n:]
		}
		if len(chunks) == 0 {
			chunks = [][]byte{{}}
		}
		emit("chunks " + encChunks(chunks))
	}
}
