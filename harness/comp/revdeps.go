package comp

import (
	"fmt"
	"math/rand"
	"sort"
	"strings"

	"github.com/f1bonacc1/process-compose/src/app"
)

// revdeps: ProjectRunner.runningProcessesReverseDependencies on synthetic running sets.
type revdeps struct{}

func init() { Register("revdeps", func() Component { return &revdeps{} }) }

func (c *revdeps) Exec(op string) string {
	w := strings.Fields(op)
	if len(w) < 1 || len(w) > 2 || w[0] != "revdeps" {
		return "bad-op"
	}
	deps := map[string][]string{}
	running := []string{}
	if len(w) == 2 {
		for _, item := range strings.Split(w[1], ";") {
			nd := strings.SplitN(item, ":", 2)
			if len(nd) != 2 || nd[0] == "" {
				continue
			}
			running = append(running, nd[0])
			for _, d := range strings.Split(nd[1], ",") {
				if d != "" {
					deps[nd[0]] = append(deps[nd[0]], d)
				}
			}
		}
	}
	return Safe(func() string {
		m := app.VerifReverseDeps(deps, running)
		keys := []string{}
		for k, v := range m {
			if len(v) > 0 {
				keys = append(keys, k)
			}
		}
		sort.Strings(keys)
		parts := []string{}
		for _, k := range keys {
			parts = append(parts, k+"="+strings.Join(m[k], ","))
		}
		return strings.Join(parts, ";")
	})
}

func encGraph(names []string, edges map[string][]string) string {
	parts := []string{}
	for _, n := range names {
		parts = append(parts, n+":"+strings.Join(edges[n], ","))
	}
	return strings.Join(parts, ";")
}

func (c *revdeps) Gen(r *rand.Rand, tier string, emit func(string)) {
	all := []string{"a", "b", "c", "d"}
	maxN := 3
	if tier == "thorough" {
		maxN = 4
	}
	// every digraph on <= maxN nodes (self loops included), every subset of running processes,
	// plus one non-running name "z" as a possible dependency
	for n := 1; n <= maxN; n++ {
		names := all[:n]
		pairs := n * n
		for mask := 0; mask < 1<<pairs; mask++ {
			edges := map[string][]string{}
			for i := 0; i < n; i++ {
				for j := 0; j < n; j++ {
					if mask&(1<<(i*n+j)) != 0 {
						edges[names[i]] = append(edges[names[i]], names[j])
					}
				}
			}
			if n < 4 {
				for sub := 1; sub < 1<<n; sub++ {
					run := []string{}
					for i := 0; i < n; i++ {
						if sub&(1<<i) != 0 {
							run = append(run, names[i])
						}
					}
					emit("revdeps " + encGraph(run, edges))
				}
			} else {
				emit("revdeps " + encGraph(names, edges))
			}
		}
	}
	cnt := 300
	if tier == "thorough" {
		cnt = 5000
	}
	for k := 0; k < cnt; k++ {
		n := 2 + r.Intn(9)
		names := []string{}
		for i := 0; i < n; i++ {
			names = append(names, fmt.Sprintf("p%d", i))
		}
		edges := map[string][]string{}
		for i := 0; i < n; i++ {
			for j := 0; j < n; j++ {
				if i != j && r.Intn(4) == 0 {
					edges[names[i]] = append(edges[names[i]], names[j])
				}
			}
			if r.Intn(6) == 0 {
				edges[names[i]] = append(edges[names[i]], "gone")
			}
		}
		run := []string{}
		for _, nme := range names {
			if r.Intn(5) > 0 {
				run = append(run, nme)
			}
		}
		emit("revdeps " + encGraph(run, edges))
	}
}
