package comp

import (
	"fmt"
	"math/rand"
	"strconv"
	"strings"

	"github.com/f1bonacc1/process-compose/src/pclog"
)

// logbuf: pclog.ProcessLogBuffer driven directly.

type obs struct {
	id   string
	tail int
	got  []string
}

func (o *obs) WriteString(line string) (int, error) {
	o.got = append(o.got, line)
	return len(line), nil
}
func (o *obs) SetLines(lines []string) { o.got = append([]string{}, lines...) }
func (o *obs) GetTailLength() int      { return o.tail }
func (o *obs) GetUniqueID() string     { return o.id }

type logbuf struct {
	b    *pclog.ProcessLogBuffer
	obs  map[string]*obs
	subd map[string]bool
	held map[string][]string // answers of range requests kept by their callers
}

func init() { Register("logbuf", func() Component { return &logbuf{} }) }

func (c *logbuf) Exec(op string) string {
	w := strings.Fields(op)
	return Safe(func() string {
		switch {
		case len(w) == 2 && w[0] == "new":
			n, err := strconv.Atoi(w[1])
			if err != nil || n < 0 {
				return "bad-op"
			}
			c.b = pclog.NewLogBuffer(n)
			c.obs = map[string]*obs{}
			c.subd = map[string]bool{}
			c.held = map[string][]string{}
			return "ok"
		case len(w) == 2 && w[0] == "w":
			m, ok := UnHex(w[1])
			if !ok {
				return "bad-op"
			}
			c.b.Write(m)
			return "ok"
		case len(w) == 3 && w[0] == "range":
			o, e1 := strconv.Atoi(w[1])
			l, e2 := strconv.Atoi(w[2])
			if e1 != nil || e2 != nil {
				return "bad-op"
			}
			return HexList(c.b.GetLogRange(o, l))
		case len(w) == 4 && w[0] == "hold":
			// a caller keeps the answer of a range request (as the REST handler does while it encodes it)
			o, e1 := strconv.Atoi(w[2])
			l, e2 := strconv.Atoi(w[3])
			if e1 != nil || e2 != nil {
				return "bad-op"
			}
			c.held[w[1]] = c.b.GetLogRange(o, l)
			return HexList(c.held[w[1]])
		case len(w) == 2 && w[0] == "held":
			// ... and reads it later
			h, ok := c.held[w[1]]
			if !ok {
				return "none"
			}
			return HexList(h)
		case len(w) == 1 && w[0] == "len":
			return Itoa(c.b.GetLogLength())
		case len(w) == 3 && w[0] == "sub":
			id, ok := UnHex(w[1])
			t, err := strconv.Atoi(w[2])
			if !ok || err != nil {
				return "bad-op"
			}
			o := &obs{id: id, tail: t}
			c.obs[id] = o
			c.b.GetLogsAndSubscribe(o)
			c.subd[id] = true
			return "ok"
		case len(w) == 2 && w[0] == "unsub":
			id, ok := UnHex(w[1])
			if !ok {
				return "bad-op"
			}
			c.b.UnSubscribe(&obs{id: id})
			c.subd[id] = false
			return "ok"
		case len(w) == 1 && w[0] == "close":
			c.b.Close()
			for k := range c.subd {
				c.subd[k] = false
			}
			return "ok"
		case len(w) == 2 && w[0] == "got":
			id, ok := UnHex(w[1])
			if !ok {
				return "bad-op"
			}
			if o, ok := c.obs[id]; ok && c.subd[id] {
				return HexList(o.got)
			}
			return "none"
		}
		return "bad-op"
	})
}

func (c *logbuf) Gen(r *rand.Rand, tier string, emit func(string)) {
	maxN, cases := 12, 40
	if tier == "thorough" {
		maxN, cases = 30, 400
	}
	line := 0
	wr := func() {
		line++
		emit("w " + Hex(fmt.Sprintf("l%d", line)))
	}
	// exhaustive small grid: every length 0..maxN, every (offset, limit) in -2..maxN+2
	for n := 0; n <= maxN; n++ {
		emit("new 1000")
		for i := 0; i < n; i++ {
			wr()
		}
		for o := -2; o <= n+2; o++ {
			for l := -2; l <= n+2; l++ {
				emit(fmt.Sprintf("range %d %d", o, l))
			}
		}
	}
	// huge arguments
	emit("new 5")
	for i := 0; i < 7; i++ {
		wr()
	}
	for _, o := range []int{-1 << 63, -1 << 62, -1 << 31, 1 << 31, 1 << 62, 1<<63 - 1, 3} {
		for _, l := range []int{-1 << 63, -1 << 62, 1 << 62, 1<<63 - 1, 1 << 31, 2} {
			emit(fmt.Sprintf("range %d %d", o, l))
		}
	}
	// random histories crossing the trim boundary, with followers
	ids := []string{"a", "b", "c"}
	for k := 0; k < cases; k++ {
		size := []int{0, 1, 2, 3, 5, 10, 50}[r.Intn(7)]
		emit(fmt.Sprintf("new %d", size))
		steps := 20 + r.Intn(size+2*100+30)
		for i := 0; i < steps; i++ {
			switch x := r.Intn(100); {
			case x < 70:
				wr()
			case x < 78:
				emit(fmt.Sprintf("range %d %d", r.Intn(size+130)-3, r.Intn(size+130)-3))
			case x < 82:
				emit("len")
			case x < 89:
				emit(fmt.Sprintf("sub %s %d", Hex(ids[r.Intn(3)]), r.Intn(size+120)-2))
			case x < 93:
				emit("unsub " + Hex(ids[r.Intn(3)]))
			case x < 94:
				emit("close")
			default:
				emit("got " + Hex(ids[r.Intn(3)]))
			}
		}
		emit("len")
		for _, id := range ids {
			emit("got " + Hex(id))
		}
	}
	// an answer that is kept while the process goes on writing across several trims
	for k := 0; k < 4; k++ {
		size := []int{0, 5, 50}[r.Intn(3)]
		emit(fmt.Sprintf("new %d", size))
		for i := 0; i < size+150; i++ {
			wr()
		}
		emit(fmt.Sprintf("hold h1 %d %d", 20+r.Intn(size+100), r.Intn(30)))
		for i := 0; i < 130; i++ {
			wr()
		}
		emit(fmt.Sprintf("hold h2 %d 0", 3+r.Intn(100)))
		emit("held h1")
		for i := 0; i < 250; i++ {
			wr()
		}
		emit("held h1")
		emit("held h2")
	}
}
