package comp

import (
	"bytes"
	"encoding/json"
	"fmt"
	"io"
	"math/rand"
	"net/http"
	"net/http/httptest"
	"net/url"
	"os"
	"path/filepath"
	"reflect"
	"strconv"
	"strings"

	"github.com/f1bonacc1/process-compose/src/api"
	"github.com/f1bonacc1/process-compose/src/app"
	"github.com/f1bonacc1/process-compose/src/client"
	"github.com/f1bonacc1/process-compose/src/loader"
	"github.com/f1bonacc1/process-compose/src/types"
	"github.com/f1bonacc1/process-compose/src/verif"
	"github.com/gin-gonic/gin"
)

// api: the REST routes (api.InitRoutes) over a live runner with fake commands, driven in process
// (engine.ServeHTTP), and the bundled client (client.PcClient) over an in-process transport.
// A recording proxy between the handlers and the runner shows which IProject operation a request
// performed, with which arguments, and what it returned: REST answer, client return value and
// direct result are compared three ways.
type apiC struct {
	sc     scaleC
	eng    *gin.Engine
	proxy  *recProxy
	client *client.PcClient
	n      int
}

func init() { Register("api", func() Component { return &apiC{} }) }

type recCall struct {
	op   string
	args []string
	res  string // ok | err | partialErr
	val  interface{}
	err  error
}

type recProxy struct {
	app.IProject
	calls []recCall
}

func (p *recProxy) rec(op string, args []string, val interface{}, err error, partial bool) {
	res := "ok"
	if err != nil {
		res = "err"
		if partial {
			res = "partialErr"
		}
	}
	p.calls = append(p.calls, recCall{op, args, res, val, err})
}

func (p *recProxy) ShutDownProject() error {
	err := p.IProject.ShutDownProject()
	p.rec("ShutDownProject", nil, map[string]string{"status": "stopped"}, err, false)
	return err
}
func (p *recProxy) GetHostName() (string, error) {
	v, err := p.IProject.GetHostName()
	p.rec("GetHostName", nil, map[string]string{"name": v}, err, false)
	return v, err
}
func (p *recProxy) GetProjectState(checkMem bool) (*types.ProjectState, error) {
	v, err := p.IProject.GetProjectState(checkMem)
	p.rec("GetProjectState", nil, v, err, false)
	return v, err
}
func (p *recProxy) GetProcessLog(name string, off, limit int) ([]string, error) {
	v, err := p.IProject.GetProcessLog(name, off, limit)
	p.rec("GetProcessLog", []string{name, strconv.Itoa(off), strconv.Itoa(limit)}, map[string]interface{}{"logs": v}, err, false)
	return v, err
}
func (p *recProxy) GetProcessInfo(name string) (*types.ProcessConfig, error) {
	v, err := p.IProject.GetProcessInfo(name)
	p.rec("GetProcessInfo", []string{name}, v, err, false)
	return v, err
}
func (p *recProxy) GetProcessState(name string) (*types.ProcessState, error) {
	v, err := p.IProject.GetProcessState(name)
	p.rec("GetProcessState", []string{name}, v, err, false)
	return v, err
}
func (p *recProxy) GetProcessesState() (*types.ProcessesState, error) {
	v, err := p.IProject.GetProcessesState()
	p.rec("GetProcessesState", nil, v, err, false)
	return v, err
}
func (p *recProxy) StopProcess(name string) error {
	err := p.IProject.StopProcess(name)
	p.rec("StopProcess", []string{name}, map[string]string{"name": name}, err, false)
	return err
}
func (p *recProxy) StopProcesses(names []string) (map[string]string, error) {
	v, err := p.IProject.StopProcesses(names)
	p.rec("StopProcesses", []string{"<body>"}, v, err, len(v) > 0)
	return v, err
}
func (p *recProxy) StartProcess(name string) error {
	err := p.IProject.StartProcess(name)
	p.rec("StartProcess", []string{name}, map[string]string{"name": name}, err, false)
	return err
}
func (p *recProxy) RestartProcess(name string) error {
	err := p.IProject.RestartProcess(name)
	p.rec("RestartProcess", []string{name}, map[string]string{"name": name}, err, false)
	return err
}
func (p *recProxy) ScaleProcess(name string, scale int) error {
	err := p.IProject.ScaleProcess(name, scale)
	p.rec("ScaleProcess", []string{name, strconv.Itoa(scale)}, map[string]string{"name": name}, err, false)
	return err
}
func (p *recProxy) GetProcessPorts(name string) (*types.ProcessPorts, error) {
	v, err := p.IProject.GetProcessPorts(name)
	p.rec("GetProcessPorts", []string{name}, v, err, false)
	return v, err
}
func (p *recProxy) UpdateProject(project *types.Project) (map[string]string, error) {
	v, err := p.IProject.UpdateProject(project)
	p.rec("UpdateProject", []string{"<body>"}, v, err, len(v) > 0)
	return v, err
}
func (p *recProxy) UpdateProcess(updated *types.ProcessConfig) error {
	err := p.IProject.UpdateProcess(updated)
	p.rec("UpdateProcess", []string{"<body>"}, updated, err, false)
	return err
}
func (p *recProxy) ReloadProject() (map[string]string, error) {
	v, err := p.IProject.ReloadProject()
	p.rec("ReloadProject", nil, v, err, len(v) > 0)
	return v, err
}

// in-process transport for the client
type engTransport struct{ eng *gin.Engine }

func (t *engTransport) RoundTrip(req *http.Request) (*http.Response, error) {
	rec := httptest.NewRecorder()
	t.eng.ServeHTTP(rec, req)
	return rec.Result(), nil
}

func generic(v interface{}) interface{} {
	b, err := json.Marshal(v)
	if err != nil {
		return "<unmarshalable>"
	}
	var g interface{}
	_ = json.Unmarshal(b, &g)
	return g
}

func (c *apiC) inThread(f func()) string {
	c.n++
	if err := verif.S.Go("api", fmt.Sprintf("q%d", c.n), func() {
		defer func() {
			if e := recover(); e != nil {
				c.proxy.calls = append(c.proxy.calls, recCall{op: "PANIC", res: fmt.Sprint(e)})
			}
		}()
		f()
	}); err != nil {
		return "DIVERGED"
	}
	if q := c.sc.quiesce(); q != "" {
		return q
	}
	verif.S.TakeLog()
	return ""
}

func invString(calls []recCall) string {
	if len(calls) == 0 {
		return "none"
	}
	l := []string{}
	for _, k := range calls {
		a := []string{}
		for _, x := range k.args {
			a = append(a, Hex(x))
		}
		l = append(l, fmt.Sprintf("%s(%s):%s", k.op, strings.Join(a, ","), k.res))
	}
	return strings.Join(l, "+")
}

func (c *apiC) body(kind string) (io.Reader, bool) {
	switch {
	case kind == "-":
		return nil, true
	case kind == "m":
		return strings.NewReader(`{"x":`), true
	case kind == "t":
		return strings.NewReader(`"a string, not the expected shape"`), true
	case strings.HasPrefix(kind, "names:"):
		l := []string{}
		if kind != "names:" {
			l = strings.Split(strings.TrimPrefix(kind, "names:"), ",")
		}
		b, _ := json.Marshal(l)
		return bytes.NewReader(b), true
	case strings.HasPrefix(kind, "proc:"):
		pc, err := c.sc.h.r.GetProcessInfo(strings.TrimPrefix(kind, "proc:"))
		if err != nil {
			pc = &types.ProcessConfig{Name: "ghost", ReplicaName: "ghost"}
		}
		cp := *pc
		cp.Description = cp.Description + "+"
		b, _ := json.Marshal(&cp)
		return bytes.NewReader(b), true
	case kind == "project":
		b, _ := json.Marshal(c.sc.h.r.VerifProject())
		return bytes.NewReader(b), true
	}
	return nil, false
}

func (c *apiC) Exec(op string) string {
	w := strings.Fields(op)
	switch {
	case len(w) == 1 && w[0] == "apinit":
		c.sc.h = &supH{}
		c.sc.h.reset("coarse", false)
		if c.sc.dir == "" {
			c.sc.dir, _ = os.MkdirTemp("", "pcapi")
		}
		f := filepath.Join(c.sc.dir, "pc.yaml")
		yml := "vars:\n  G: 7\nprocesses:\n  a:\n    command: \"run a {{.G}}\"\n    description: \"first\"\n  b:\n    command: \"run b {{.PC_REPLICA_NUM}}\"\n    replicas: 2\n    depends_on:\n      a:\n        condition: process_started\n  c:\n    command: \"run c\"\n    disabled: true\n"
		_ = os.WriteFile(f, []byte(yml), 0o644)
		prj, err := loader.Load(&loader.LoaderOptions{FileNames: []string{f}, IsInternalLoader: true})
		if err != nil {
			return "load-error"
		}
		r, err := app.NewProjectRunner((&app.ProjectOpts{}).WithProject(prj).WithIsTuiOn(true))
		if err != nil {
			return "runner-error"
		}
		c.sc.h.r = r
		c.proxy = &recProxy{IProject: r}
		gin.SetMode(gin.ReleaseMode)
		c.eng = api.InitRoutes(false, api.NewPcApi(c.proxy))
		c.client = client.VerifNewClient("pc.test", &http.Client{Transport: &engTransport{c.eng}}, 100)
		if err := verif.S.Go("api", "main", func() { _ = r.Run() }); err != nil {
			return "DIVERGED"
		}
		if q := c.sc.quiesce(); q != "" {
			return q
		}
		verif.S.TakeLog()
		// some output for the log routes
		for _, fc := range c.sc.h.cmds {
			if fc.out != nil {
				for i := 0; i < 5; i++ {
					fc.out.feed([]byte(fmt.Sprintf("%s line %d\n", fc.name, i)))
				}
			}
		}
		return "ok"
	case len(w) == 4 && w[0] == "rq":
		if c.eng == nil || c.sc.h.dead {
			return "DEAD"
		}
		segs := []string{}
		if w[2] != "~" {
			for _, h := range strings.Split(w[2], ",") {
				s, ok := UnHex(h)
				if !ok {
					return "bad-op"
				}
				segs = append(segs, url.PathEscape(s))
			}
		}
		body, ok := c.body(w[3])
		if !ok {
			return "bad-op"
		}
		req, err := http.NewRequest(w[1], "http://pc.test/"+strings.Join(segs, "/"), body)
		if err != nil {
			return "bad-request"
		}
		if body != nil {
			req.Header.Set("Content-Type", "application/json")
		}
		c.proxy.calls = nil
		rec := httptest.NewRecorder()
		if q := c.inThread(func() { c.eng.ServeHTTP(rec, req) }); q != "" {
			return q
		}
		calls := c.proxy.calls
		bodyClass := "-"
		var got interface{}
		raw := rec.Body.Bytes()
		if len(raw) > 0 && json.Unmarshal(raw, &got) == nil {
			if m, ok := got.(map[string]interface{}); ok && len(m) == 1 && m["error"] != nil && rec.Code >= 400 {
				bodyClass = "error"
				if len(calls) == 1 && calls[0].err != nil && m["error"] != calls[0].err.Error() {
					bodyClass = "error-text-differs"
				}
			} else if len(calls) == 1 && calls[0].op != "PANIC" {
				if reflect.DeepEqual(got, generic(calls[0].val)) {
					bodyClass = "same"
				} else {
					bodyClass = "diff"
				}
			} else {
				bodyClass = "other"
			}
		}
		return fmt.Sprintf("status=%d inv=%s body=%s", rec.Code, invString(calls), bodyClass)
	case len(w) >= 2 && w[0] == "cl":
		if c.eng == nil || c.sc.h.dead {
			return "DEAD"
		}
		args := []string{}
		for _, h := range w[2:] {
			s, ok := UnHex(h)
			if !ok {
				return "bad-op"
			}
			args = append(args, s)
		}
		arg := func(i int) string {
			if i < len(args) {
				return args[i]
			}
			return ""
		}
		var val interface{}
		var cerr error
		known := true
		c.proxy.calls = nil
		if q := c.inThread(func() {
			switch w[1] {
			case "GetProcessState":
				val, cerr = c.client.GetProcessState(arg(0))
			case "GetProcessInfo":
				val, cerr = c.client.GetProcessInfo(arg(0))
			case "GetProcessPorts":
				val, cerr = c.client.GetProcessPorts(arg(0))
			case "GetProcessesState":
				val, cerr = c.client.GetProcessesState()
			case "GetHostName":
				var s string
				s, cerr = c.client.GetHostName()
				val = map[string]string{"name": s}
			case "GetProjectState":
				val, cerr = c.client.GetProjectState(false)
			case "StopProcess":
				cerr = c.client.StopProcess(arg(0))
				val = map[string]string{"name": arg(0)}
			case "StartProcess":
				cerr = c.client.StartProcess(arg(0))
				val = map[string]string{"name": arg(0)}
			case "RestartProcess":
				cerr = c.client.RestartProcess(arg(0))
				val = map[string]string{"name": arg(0)}
			case "ScaleProcess":
				n, _ := strconv.Atoi(arg(1))
				cerr = c.client.ScaleProcess(arg(0), n)
				val = map[string]string{"name": arg(0)}
			case "StopProcesses":
				val, cerr = c.client.StopProcesses(args)
			case "ReloadProject":
				val, cerr = c.client.ReloadProject()
			case "GetProcessLog":
				n1, _ := strconv.Atoi(arg(1))
				n2, _ := strconv.Atoi(arg(2))
				var l []string
				l, cerr = c.client.GetProcessLog(arg(0), n1, n2)
				val = map[string]interface{}{"logs": l}
			case "IsAlive":
				cerr = c.client.IsAlive()
			default:
				known = false
			}
		}); q != "" {
			return q
		}
		if !known {
			return "bad-op"
		}
		calls := c.proxy.calls
		ret := "same"
		switch {
		case len(calls) == 1 && calls[0].op == "PANIC":
			ret = "panic"
		case len(calls) == 0:
			if w[1] != "IsAlive" {
				ret = "no-call"
			} else if cerr != nil {
				ret = "diff:error"
			}
		default:
			k := calls[len(calls)-1]
			switch {
			case k.res == "partialErr":
				// 207: the per-item map is the outcome the client returns (without an error value)
				if !reflect.DeepEqual(generic(val), generic(k.val)) {
					ret = "diff:value"
				}
			case (k.err != nil) != (cerr != nil):
				ret = "diff:error-presence"
			case k.err != nil && k.res == "err" && k.err.Error() != cerr.Error():
				ret = "diff:error-text"
			case k.err == nil || k.res == "partialErr":
				if !reflect.DeepEqual(generic(val), generic(k.val)) {
					ret = "diff:value"
				}
			}
		}
		return fmt.Sprintf("inv=%s ret=%s", invString(calls), ret)
	}
	return "bad-op"
}

var apiNames = []string{"a", "b-0", "b-1", "c", "b", "nosuch", "a b", "é", "%41", "a;x", "..", "-1", "a+b,c", "x+y;z", "+"}
var apiNums = []string{"0", "1", "2", "3", "5", "10", "-1", "+2", "x", "1.5", "", " 1", "99999999999999999999", "0x10", "1e3", "007"}

func (c *apiC) Gen(r *rand.Rand, tier string, emit func(string)) {
	hist := 12
	if tier == "thorough" {
		hist = 300
	}
	hx := func(l ...string) string {
		o := []string{}
		for _, s := range l {
			if s == "" {
				continue
			}
			o = append(o, Hex(s))
		}
		if len(o) == 0 {
			return "~"
		}
		return strings.Join(o, ",")
	}
	name := func() string { return apiNames[r.Intn(len(apiNames))] }
	num := func() string { return apiNums[r.Intn(len(apiNums))] }
	for h := 0; h < hist; h++ {
		emit("apinit")
		steps := 25 + r.Intn(25)
		for i := 0; i < steps; i++ {
			switch r.Intn(26) {
			case 0:
				emit("rq GET " + hx("live") + " -")
			case 1:
				emit("rq GET " + hx("hostname") + " -")
			case 2:
				emit("rq GET " + hx("processes") + " -")
			case 3:
				emit("rq GET " + hx("process", name()) + " -")
			case 4:
				emit("rq GET " + hx("process", "info", name()) + " -")
			case 5:
				emit("rq GET " + hx("process", "logs", name(), num(), num()) + " -")
			case 6:
				emit("rq PATCH " + hx("process", "stop", name()) + " -")
			case 7:
				b := []string{"m", "t", "-", "names:a", "names:a,nosuch", "names:nosuch", "names:", "names:b-0,b-1"}[r.Intn(8)]
				emit("rq PATCH " + hx("processes", "stop") + " " + b)
			case 8:
				emit("rq POST " + hx("process", "start", name()) + " -")
			case 9:
				emit("rq POST " + hx("process", "restart", name()) + " -")
			case 10:
				emit("rq PATCH " + hx("process", "scale", name(), num()) + " -")
			case 11:
				emit("rq GET " + hx("project", "state") + " -")
			case 12:
				b := []string{"m", "t", "-", "proc:a", "proc:b-0", "proc:nosuch"}[r.Intn(6)]
				emit("rq POST " + hx("process") + " " + b)
			case 13:
				b := []string{"m", "t", "-", "project"}[r.Intn(4)]
				emit("rq POST " + hx("project") + " " + b)
			case 14:
				// wrong verb / unknown route / extra segment
				alt := [][]string{{"GET", "process", "stop", "a"}, {"POST", "processes"}, {"GET", "nosuch"}, {"DELETE", "process", "a"},
					{"GET", "process", "logs", "a", "1"}, {"PATCH", "process", "scale", "a"}, {"GET", "process", "info", "a", "x"}}[r.Intn(7)]
				emit("rq " + alt[0] + " " + hx(alt[1:]...) + " -")
			case 15:
				emit("cl GetProcessState " + Hex(name()))
			case 16:
				emit("cl GetProcessInfo " + Hex(name()))
			case 17:
				emit("cl GetProcessesState")
			case 18:
				emit("cl " + []string{"StopProcess", "StartProcess", "RestartProcess"}[r.Intn(3)] + " " + Hex(name()))
			case 19:
				emit("cl ScaleProcess " + Hex(name()) + " " + Hex([]string{"1", "2", "3", "0", "-1"}[r.Intn(5)]))
			case 20:
				emit("cl StopProcesses " + Hex(name()) + " " + Hex(name()))
			case 21:
				emit("cl " + []string{"GetHostName", "GetProjectState", "IsAlive"}[r.Intn(3)])
			case 22:
				emit("cl GetProcessLog " + Hex(name()) + " " + Hex("3") + " " + Hex("2"))
			case 23:
				emit("rq POST " + hx("project", "configuration") + " -")
			case 24:
				emit("cl ReloadProject")
			case 25:
				emit("cl GetProcessPorts " + Hex(name()))
			}
		}
		if r.Intn(2) == 0 {
			emit("rq POST " + hx("project", "stop") + " -")
			emit("rq GET " + hx("processes") + " -")
		}
	}
}
